"""Serialises an abstract package (harness.gen_xml.Package) to a real .docx and, in parallel, to the DOM the
model takes as input (what expat + minidom deliver).  `Spelling` selects among meaning-preserving encodings (C13)."""
import io
import zipfile
from xml.sax.saxutils import escape, quoteattr

from mammoth.docx.xmlparser import XmlElement, XmlText, element as X

from . import terms as T

TRANSITIONAL = {
    "w": "http://schemas.openxmlformats.org/wordprocessingml/2006/main",
    "r": "http://schemas.openxmlformats.org/officeDocument/2006/relationships",
    "wp": "http://schemas.openxmlformats.org/drawingml/2006/wordprocessingDrawing",
    "a": "http://schemas.openxmlformats.org/drawingml/2006/main",
    "pic": "http://schemas.openxmlformats.org/drawingml/2006/picture",
}
STRICT = {
    "w": "http://purl.oclc.org/ooxml/wordprocessingml/main",
    "r": "http://purl.oclc.org/ooxml/officeDocument/relationships",
    "wp": "http://purl.oclc.org/ooxml/drawingml/wordprocessingDrawing",
    "a": "http://purl.oclc.org/ooxml/drawingml/main",
    "pic": "http://purl.oclc.org/ooxml/drawingml/picture",
}
COMMON = {
    "content-types": "http://schemas.openxmlformats.org/package/2006/content-types",
    "relationships": "http://schemas.openxmlformats.org/package/2006/relationships",
    "mc": "http://schemas.openxmlformats.org/markup-compatibility/2006",
    "v": "urn:schemas-microsoft-com:vml",
    "office-word": "urn:schemas-microsoft-com:office:word",
    "wordml": "http://schemas.microsoft.com/office/word/2010/wordml",
    "o": "urn:schemas-microsoft-com:office:office",
    "x": "urn:example:unknown",
    "xml": "http://www.w3.org/XML/1998/namespace",
}
REL = "http://schemas.openxmlformats.org/officeDocument/2006/relationships/"
STYLE_MAP_REL = "http://schemas.zwobble.org/mammoth/style-map"


class Spelling:
    def __init__(self, strict=False, rename_prefixes=False, default_ns=False, declaration="standalone", encoding="utf-8",
                 bom=False, cdata=False, charrefs=False, comments=False, pis=False, whitespace=False, zip_order="normal",
                 compression=zipfile.ZIP_DEFLATED, rename_parts=False, noise=False, rng=None, nested_default_ns=False, stale_parts=False):
        self.strict, self.rename_prefixes, self.default_ns = strict, rename_prefixes, default_ns
        self.declaration, self.encoding, self.bom = declaration, encoding, bom
        self.cdata, self.charrefs, self.comments, self.pis, self.whitespace = cdata, charrefs, comments, pis, whitespace
        self.zip_order, self.compression, self.rename_parts, self.noise = zip_order, compression, rename_parts, noise
        self.rng = rng
        self.nested_default_ns = nested_default_ns
        # unreferenced left-over parts at the conventional names, beside the renamed parts the relationships point to
        self.stale_parts = stale_parts
        if stale_parts:
            self.rename_parts = True

    def uri(self, prefix):
        if "~" in prefix:
            # "x~b": the prefix x bound, on this element only, to another namespace
            return "urn:verif:rebound:" + prefix.split("~", 1)[1]
        if prefix in TRANSITIONAL:
            return (STRICT if self.strict else TRANSITIONAL)[prefix]
        return COMMON[prefix]


def split(name):
    if ":" in name:
        p, l = name.split(":", 1)
        return p, l
    return None, name


def _valid_text_char(c):
    o = ord(c)
    return o in (9, 10, 13) or 0x20 <= o <= 0xD7FF or 0xE000 <= o <= 0xFFFD or 0x10000 <= o <= 0x10FFFF


def sanitize(s):
    """XML 1.0 cannot carry some code points at all; the generator's strings are filtered here (both for the
    file and for the model), \\r is normalised to \\n by every XML parser so it is written as a char ref."""
    return "".join(c for c in s if _valid_text_char(c))


class Serializer:
    def __init__(self, sp):
        self.sp = sp

    def prefix(self, p):
        if p == "xml" or not self.sp.rename_prefixes:
            return p
        return "ns" + "".join("%02x" % ord(c) for c in p)[:8]

    def text(self, s):
        sp = self.sp
        if sp.cdata and s and "]]>" not in s and "\r" not in s and sp.rng.random() < 0.5:
            return "<![CDATA[" + s + "]]>", [("cdata", s)]
        out = []
        for c in s:
            if c == "\r":
                out.append("&#13;")
            elif c in "<&>":
                out.append({"<": "&lt;", "&": "&amp;", ">": "&gt;"}[c])
            elif sp.charrefs and sp.rng.random() < 0.2:
                out.append("&#x%X;" % ord(c) if sp.rng.random() < 0.5 else "&#%d;" % ord(c))
            else:
                out.append(c)
        return "".join(out), [("text", s)]

    def attr_value(self, v):
        out = []
        for c in v:
            if c in '<&>"':
                out.append({"<": "&lt;", "&": "&amp;", ">": "&gt;", '"': "&quot;"}[c])
            elif c in "\r\n\t":
                out.append("&#%d;" % ord(c))
            elif self.sp.charrefs and self.sp.rng.random() < 0.1:
                out.append("&#x%X;" % ord(c))
            else:
                out.append(c)
        return '"' + "".join(out) + '"'

    def element(self, x, root=False, default_prefix=None, used=None, cur_default=None):
        """returns (xml text, dom) ; dom = ('elem', (uri, local), [((uri, local), value)], [children]) | ('text', s) | ('cdata', s) ..."""
        sp = self.sp
        p, l = split(x.name)
        local_decl = ""
        local_dom = []
        if p is None:
            qn, tag = (None, l), l
        elif sp.nested_default_ns:
            # every element is written unprefixed; the default namespace is re-declared wherever it changes
            qn = (sp.uri(p), l)
            tag = l
            if cur_default != sp.uri(p):
                local_decl = ' xmlns="%s"' % sp.uri(p)
                local_dom = [(("http://www.w3.org/2000/xmlns/", "xmlns"), sp.uri(p))]
                cur_default = sp.uri(p)
        elif "~" in p:
            base = self.prefix(p.split("~", 1)[0])
            qn = (sp.uri(p), l)
            tag = base + ":" + l
            local_decl = ' xmlns:%s="%s"' % (base, sp.uri(p))
            local_dom = [(("http://www.w3.org/2000/xmlns/", base), sp.uri(p))]
        else:
            qn = (sp.uri(p), l)
            tag = l if (default_prefix == p) else self.prefix(p) + ":" + l
        attrs_txt, attrs_dom = [], []
        for k in sorted(x.attributes):
            v = sanitize(x.attributes[k])
            if v.startswith("@NS:"):
                # an attribute whose VALUE names a namespace (a:graphicData/@uri): written with the URI of the namespace set in use
                v = sp.uri(v[4:])
            ap, al = split(k)
            if ap is None:
                attrs_txt.append(" %s=%s" % (al, self.attr_value(v)))
                attrs_dom.append(((None, al), v))
            else:
                attrs_txt.append(" %s:%s=%s" % (self.prefix(ap), al, self.attr_value(v)))
                attrs_dom.append(((sp.uri(ap), al), v))
        decl = local_decl
        attrs_dom += local_dom
        if root:
            for q in sorted(used):
                if q == "xml":
                    continue
                if q == default_prefix:
                    decl += ' xmlns="%s"' % sp.uri(q)
                    attrs_dom.append((("http://www.w3.org/2000/xmlns/", "xmlns"), sp.uri(q)))
                    # attributes cannot use the default namespace: the prefix is declared as well
                    decl += ' xmlns:%s="%s"' % (self.prefix(q), sp.uri(q))
                    attrs_dom.append((("http://www.w3.org/2000/xmlns/", self.prefix(q)), sp.uri(q)))
                else:
                    decl += ' xmlns:%s="%s"' % (self.prefix(q), sp.uri(q))
                    attrs_dom.append((("http://www.w3.org/2000/xmlns/", self.prefix(q)), sp.uri(q)))
        kids_txt, kids_dom = [], []

        def add_dom(kind, s):
            # minidom merges adjacent character data into one Text node; CDATA stays separate
            if kind == "text" and kids_dom and kids_dom[-1][0] == "text":
                kids_dom[-1] = ("text", kids_dom[-1][1] + s)
            elif kind == "text" and s == "":
                return
            else:
                kids_dom.append((kind, s))

        text_parent = x.name in ("w:t", "w:instrText", "w:delText")
        for c in x.children:
            if isinstance(c, XmlText):
                val = sanitize(c.value)
                if sp.comments and len(val) > 1 and sp.rng.random() < 0.2:
                    # a comment (or PI) in the middle of character data splits it into two text nodes
                    cut = sp.rng.randint(1, len(val) - 1)
                    t1, d1 = self.text(val[:cut])
                    t2, d2 = self.text(val[cut:])
                    kids_txt += [t1, "<!--c-->", t2]
                    for kind, s in d1:
                        add_dom(kind, s)
                    kids_dom.append(("comment", "c"))
                    for kind, s in d2:
                        add_dom(kind, s)
                    continue
                t, d = self.text(val)
                kids_txt.append(t)
                for kind, s in d:
                    add_dom(kind, s)
            else:
                if not text_parent:
                    if sp.whitespace and sp.rng.random() < 0.5:
                        ws = sp.rng.choice(["\n", "\n  ", " ", "\t"])
                        kids_txt.append(ws)
                        add_dom("text", ws)
                    if sp.comments and sp.rng.random() < 0.15:
                        kids_txt.append("<!-- a comment -->")
                        kids_dom.append(("comment", " a comment "))
                    if sp.pis and sp.rng.random() < 0.1:
                        kids_txt.append("<?mso-application progid=\"Word.Document\"?>")
                        kids_dom.append(("pi", "mso-application", 'progid="Word.Document"'))
                t, d = self.element(c, False, default_prefix, used, cur_default)
                kids_txt.append(t)
                kids_dom.append(d)
        if sp.whitespace and kids_dom and kids_dom[-1][0] == "elem" and sp.rng.random() < 0.5:
            kids_txt.append("\n")
            add_dom("text", "\n")
        if kids_txt:
            txt = "<%s%s%s>%s</%s>" % (tag, decl, "".join(attrs_txt), "".join(kids_txt), tag)
        else:
            txt = "<%s%s%s/>" % (tag, decl, "".join(attrs_txt)) if not (sp.rng and sp.rng.random() < 0.3) else \
                "<%s%s%s></%s>" % (tag, decl, "".join(attrs_txt), tag)
        return txt, ("elem", qn, attrs_dom, kids_dom)

    def document(self, root):
        used = set()

        def collect(x):
            if isinstance(x, XmlElement):
                p, _ = split(x.name)
                if p:
                    used.add(p.split("~", 1)[0])
                for k in x.attributes:
                    ap, _ = split(k)
                    if ap:
                        used.add(ap)
                for c in x.children:
                    collect(c)
        collect(root)
        dp = split(root.name)[0] if (self.sp.default_ns and not self.sp.nested_default_ns) else None
        # a default namespace would also capture unprefixed ELEMENT names (none in our grammar); attributes are unaffected
        txt, dom = self.element(root, True, dp, used)
        sp = self.sp
        enc = sp.encoding
        if sp.declaration == "none" and enc.lower().replace("-", "") != "utf8":
            enc = "utf-8"
        head = {"standalone": '<?xml version="1.0" encoding="%s" standalone="yes"?>' % enc.upper(),
                "plain": '<?xml version="1.0" encoding="%s"?>' % enc,
                "none": ""}[sp.declaration]
        if sp.declaration != "none" and sp.whitespace:
            head += "\n"
        data = (head + txt).encode("utf-16" if enc.lower() == "utf-16" else enc)
        if sp.bom and enc.lower() == "utf-8":
            data = b"\xef\xbb\xbf" + data
        return data, dom


def dom_term(d):
    kind = d[0]
    if kind == "text":
        return "(DomText %s)" % T.s(d[1])
    if kind == "cdata":
        return "(DomCData %s)" % T.s(d[1])
    if kind == "comment":
        return "(DomComment %s)" % T.s(d[1])
    if kind == "pi":
        return "(DomPI %s %s)" % (T.s(d[1]), T.s(d[2]))
    _, qn, attrs, kids = d
    q = lambda n: "(%s, %s)" % (T.opt(T.s, n[0]), T.s(n[1]))
    return "(DomElem %s %s %s)" % (q(qn), T.lst(lambda a: "(%s, %s)" % (q(a[0]), T.s(a[1])), attrs), T.lst(dom_term, kids))


def build(pkg, sp=None):
    """returns (docx bytes, model parts: list of (name, kind, payload)) with kind in dom|bytes|text"""
    sp = sp or Spelling()
    ser = Serializer(sp)
    names = {"document": "word/document.xml", "styles": "word/styles.xml", "numbering": "word/numbering.xml",
             "footnotes": "word/footnotes.xml", "endnotes": "word/endnotes.xml", "comments": "word/comments.xml"}
    if sp.rename_parts:
        # (names are taken literally: a percent sign in a part name is a percent sign)
        names.update({"styles": "word/st%20x.xml", "numbering": "word/sub/nm%41.xml", "footnotes": "word/fn1%2e.xml",
                      "endnotes": "word/en1.xml", "comments": "word/c%6D.xml", "document": "word/doc2.xml"})
    parts = []   # (name, root or bytes)
    body = list(pkg.body)
    doc_rels = list(pkg.rels)
    n = [len(doc_rels)]

    def rel(target, ty):
        n[0] += 1
        doc_rels.append(("rIdP%d" % n[0], target, ty))

    def target_of(name):
        # relative to the main document's directory (word/)
        return name[len("word/"):]
    roots = {"document": X("w:document", {}, [] if pkg.meta.get("no_body") else [X("w:body", {}, body)])}
    if pkg.styles is not None:
        roots["styles"] = X("w:styles", {}, pkg.styles)
    if pkg.numbering is not None:
        roots["numbering"] = X("w:numbering", {}, pkg.numbering)
    if pkg.footnotes is not None:
        roots["footnotes"] = X("w:footnotes", {}, pkg.footnotes)
    if pkg.endnotes is not None:
        roots["endnotes"] = X("w:endnotes", {}, pkg.endnotes)
    if pkg.comments is not None:
        roots["comments"] = X("w:comments", {}, pkg.comments)
    for key in ("styles", "numbering", "footnotes", "endnotes", "comments"):
        if key in roots and (sp.rename_parts or pkg.meta.get("declare_rels", True)):
            rel(target_of(names[key]), REL + key)
    # several relationships of one type, each to an existing part: the FIRST one in the relationships part is the part that is read
    alt_parts = []
    if pkg.meta.get("alt_parts"):
        if "styles" in roots:
            rel("styles2nd.xml", REL + "styles")
            rel("styles3rd.xml", REL + "styles")
            alt = [X("w:style", dict(st.attributes), [X("w:name", {"w:val": "Alt " + str(k)})]) for k, st in enumerate(pkg.styles or [])
                   if isinstance(st, XmlElement) and st.name == "w:style"]
            alt_parts += [("word/styles2nd.xml", X("w:styles", {}, alt)), ("word/styles3rd.xml", X("w:styles", {}, alt[:1]))]
        if "numbering" in roots:
            rel("numbering2nd.xml", REL + "numbering")
            alt_parts.append(("word/numbering2nd.xml", X("w:numbering")))
    cts = pkg.content_types
    overrides = list(cts["overrides"])
    media = dict(pkg.media)
    if sp.rename_parts and not pkg.meta.get("no_content_types"):
        # embedded image parts are located through relationships too: each gets another name (mixed case, another extension) and carries the
        # content type the package declared for it - by override, else by the extension default as written, else by the common-extension table -
        # in an Override for the new name; parts whose type the package does not determine keep their names
        table = {"png": "png", "gif": "gif", "jpeg": "jpeg", "jpg": "jpeg", "tif": "tiff", "tiff": "tiff", "bmp": "bmp"}
        ov, df = {}, {}
        for p_, c_ in overrides:
            ov[p_.lstrip("/")] = c_
        for e_, c_ in cts["defaults"]:
            df[e_] = c_
        for k_, old_name in enumerate(sorted(pkg.media)):
            ext = old_name.rpartition(".")[2]
            ctype = ov.get(old_name, df.get(ext, ("image/" + table[ext.lower()]) if ext.lower() in table else None))
            if ctype is None or not old_name.startswith("word/"):
                continue
            new_name = "word/media/Figure%d.Bin" % (k_ + 1)
            media[new_name] = media.pop(old_name)
            overrides = [(p_, c_) for p_, c_ in overrides if p_.lstrip("/") != old_name] + [("/" + new_name, ctype)]
            doc_rels = [(i_, ("/" + new_name if t_.startswith("/") else new_name[len("word/"):])
                         if t_ in (old_name[len("word/"):], "/" + old_name) else t_, ty_) for i_, t_, ty_ in doc_rels]
    if pkg.embedded_style_map is not None:
        doc_rels.append(("rMammothStyleMap", "/mammoth/style-map", STYLE_MAP_REL))
        overrides.append(("/mammoth/style-map", "text/prs.mammoth.style-map"))
    ct_root = X("content-types:Types", {},
                [X("content-types:Default", {"Extension": e, "ContentType": c}) for e, c in cts["defaults"]] +
                [X("content-types:Override", {"PartName": p, "ContentType": c}) for p, c in overrides])
    pkg_rels = X("relationships:Relationships", {}, [X("relationships:Relationship", {
        "Id": "rId1", "Type": REL + "officeDocument", "Target": names["document"]})] + (
        [X("relationships:Relationship", {"Id": "rId%d" % (k + 2), "Type": REL + "officeDocument", "Target": "word/document%s.xml" % sfx})
         for k, sfx in enumerate(("2nd", "3rd", "4th"))] if pkg.meta.get("alt_parts") else []))
    if pkg.meta.get("alt_parts"):
        for sfx in ("2nd", "3rd", "4th"):
            alt_parts.append(("word/document%s.xml" % sfx, X("w:document", {}, [X("w:body", {}, [X("w:p", {}, [X("w:r", {}, [X("w:t", {}, [XmlText("alternative " + sfx)])])])])])))
    drels = X("relationships:Relationships", {}, [X("relationships:Relationship", {"Id": i, "Target": t, "Type": ty})
                                                   for i, t, ty in doc_rels])
    entries = []
    if not pkg.meta.get("no_content_types"):
        entries.append(("[Content_Types].xml", ct_root))
    entries.append(("_rels/.rels", pkg_rels))
    entries.append((names["document"], roots["document"]))
    d, b = names["document"].rsplit("/", 1)
    if doc_rels or not pkg.meta.get("no_rels_when_empty"):
        entries.append(("%s/_rels/%s.rels" % (d, b), drels))
    for key in ("styles", "numbering", "footnotes", "endnotes", "comments"):
        if key in roots:
            entries.append((names[key], roots[key]))
            # notes and comments parts get the same relationships as the main document (images, links)
            if key in ("footnotes", "endnotes", "comments"):
                dd, bb = names[key].rsplit("/", 1)
                entries.append(("%s/_rels/%s.rels" % (dd, bb), drels))
    entries += alt_parts
    if sp.stale_parts:
        stale = {"document": X("w:document", {}, [X("w:body", {}, [X("w:p", {}, [X("w:r", {}, [X("w:t", {}, [XmlText("stale part")])])])])]),
                 "styles": X("w:styles", {}, [X("w:style", {"w:type": "paragraph", "w:styleId": "Heading1"}, [X("w:name", {"w:val": "Stale"})])]),
                 "numbering": X("w:numbering"), "footnotes": X("w:footnotes"), "endnotes": X("w:endnotes"), "comments": X("w:comments")}
        for key in ("document", "styles", "numbering", "footnotes", "endnotes", "comments"):
            if key in roots:
                entries.append(("word/%s.xml" % key, stale[key]))
    for name, data in sorted(media.items()):
        entries.append((name, bytes(data)))
    if pkg.embedded_style_map is not None:
        entries.append(("mammoth/style-map", pkg.embedded_style_map.encode("utf-8")))
    for name, data in pkg.meta.get("extra_entries", []):
        entries.append((name, data))
    model_parts, files = [], []
    for name, content in entries:
        if isinstance(content, XmlElement):
            data, dom = ser.document(content)
            files.append((name, data))
            model_parts.append((name, "dom", dom))
        else:
            files.append((name, content))
            if name == "mammoth/style-map":
                model_parts.append((name, "text", content.decode("utf-8")))
            else:
                model_parts.append((name, "bytes", content))
    if sp.zip_order == "reversed":
        files = files[::-1]
    elif sp.zip_order == "shuffled":
        sp.rng.shuffle(files)
    buf = io.BytesIO()
    with zipfile.ZipFile(buf, "w", sp.compression) as z:
        for name, data in files:
            z.writestr(name, data)
    return buf.getvalue(), model_parts


def parts_term(model_parts):
    def one(p):
        name, kind, payload = p
        if kind == "dom":
            return "(%s, DPDom %s)" % (T.s(name), dom_term(payload))
        if kind == "text":
            return "(%s, DPText %s)" % (T.s(name), T.s(payload))
        return "(%s, DPBytes %s)" % (T.s(name), T.lst(T.n, list(payload)))
    return T.lst(one, model_parts)
