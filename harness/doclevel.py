"""Document-level correspondence: mammoth.conversion.convert_document_element_to_html vs Model/Convert.v."""
import mammoth
from mammoth import conversion, options as moptions

from . import terms as T

HEADER = """From Mammoth Require Import Convert.
Local Open Scope N_scope.
(* (options, document, observed: Some (html, messages) or None when the implementation raised) *)
Definition chk (c : copts * document * option (str * list str)) : bool :=
  let '(o, d, obs) := c in
  match convert_document_html o d, obs with
  | Ok (h, ms), Some (h', ms') => str_eqb h h' && list_eqb str_eqb ms ms'
  | Crash _, None => true
  | _, _ => false
  end.
"""
CASE_TYPE = "copts * document * option (str * list str)"


def make_converter(kind):
    """Python twins of Model/Convert.v's img_conv."""
    if kind == "data_uri":
        return None, "ConvDataUri"
    state = {"k": 0}
    if kind in ("counting", "counting_alt", "counting_alt_empty"):
        def f(image):
            state["k"] += 1
            k = state["k"]
            with image.open() as fh:
                data = fh.read()
            d = {"data-len": str(len(data)), "src": "img%d.%s" % (k, str(image.content_type).partition("/")[2])}
            if kind == "counting_alt":
                d["alt"] = "custom"
            elif kind == "counting_alt_empty":
                d["alt"] = ""            # a decorative image: the converter's (empty) alt is an attribute it returns like any other
            return d
        # (the model has no converter that returns an empty alt: that variant is checked by the oracle only)
        return mammoth.images.img_element(f), "(ConvCounting %s)" % T.b(kind == "counting_alt")
    if kind == "no_open":
        def g(image):
            state["k"] += 1
            return {"src": "no-open-%d" % state["k"]}
        return mammoth.images.img_element(g), "ConvNoOpen"
    raise ValueError(kind)


def parse_style_map(text, include_default=True):
    r = moptions.read_options({"style_map": text, "include_default_style_map": include_default})
    return r.value["style_map"]


def observe(doc, style_map, id_prefix="", ignore_empty=True, conv="data_uri", output_format=None):
    """Runs the implementation; note: the data_uri converter does not count calls, the model's counter is
    only observable through the counting converters."""
    convert_image, _ = make_converter(conv)
    try:
        r = conversion.convert_document_element_to_html(
            doc, style_map=list(style_map), convert_image=convert_image, id_prefix=id_prefix,
            output_format=output_format, ignore_empty_paragraphs=ignore_empty)
        return r
    except Exception as e:  # the model says Crash
        return e


def case_term(doc, notes_list, style_map, id_prefix, ignore_empty, conv, res):
    _, conv_term = make_converter(conv)
    o = "(mkOpts %s %s %s %s)" % (T.lst(T.style, style_map), T.s(id_prefix), T.b(ignore_empty), conv_term)
    if isinstance(res, Exception):
        obs = "None"
    else:
        obs = "(Some (%s, %s))" % (T.s(res.value), T.lst(lambda m: T.s(m.message), res.messages))
    return "(%s, %s, %s)" % (o, T.document(doc, notes_list), obs)


def replay_data(doc, notes_list, style_map_text, include_default, id_prefix, ignore_empty, conv):
    return {"document": [T.delem_json(c) for c in doc.children],
            "notes": [{"note_type": n.note_type, "note_id": n.note_id, "body": [T.delem_json(c) for c in n.body]} for n in notes_list],
            "comments": [{"comment_id": c.comment_id, "body": [T.delem_json(x) for x in c.body],
                          "author_name": c.author_name, "author_initials": c.author_initials} for c in doc.comments],
            "style_map": style_map_text, "include_default_style_map": include_default, "id_prefix": id_prefix,
            "ignore_empty_paragraphs": ignore_empty, "convert_image": conv}


def rebuild(rep):
    from mammoth import documents as D
    body = [T.delem_from_json(j) for j in rep["document"]]
    notes = [D.note(n["note_type"], n["note_id"], [T.delem_from_json(j) for j in n["body"]]) for n in rep["notes"]]
    comments = [D.comment(c["comment_id"], [T.delem_from_json(j) for j in c["body"]], c["author_name"], c["author_initials"])
                for c in rep["comments"]]
    return D.document(body, D.notes(notes), comments), notes
