"""Generators of style-map text: valid mappings from an abstract syntax (with an independent printer),
token soups, mutations, and strings pumped from the tokeniser's own regex loops."""
import random

KINDS = ["p", "r", "table", "b", "i", "u", "strike", "all-caps", "small-caps", "highlight", "comment-reference", "br"]
IDENT_CHARS = list("abcXYZ-_09nrt") + ["\\n", "\\t", "\\r", "\\\\", "é", "\U0001f600", "'", "\\", "[", "]", ">", "|", "=", "=>", ":", ".", "(", ")", "!",
                                     "\n", "\r", "\t", "^", "#", "&", "<", '"', "1"]
STR_CHARS = IDENT_CHARS + [" ", "  ", " ", " "]
WS = [" ", "  ", "\t", " ", " ", " \t "]


def esc_ident(s):
    out = []
    for i, ch in enumerate(s):
        if ch == "\n":
            out.append("\\n")
        elif ch == "\r":
            out.append("\\r")
        elif ch == "\t":
            out.append("\\t")
        elif ch.isascii() and (ch.isalpha() or ch in "-_") or (ch.isdigit() and ch.isascii() and i > 0):
            out.append(ch)
        else:
            out.append("\\" + ch)
    return "".join(out)


def esc_string(s):
    out = []
    for ch in s:
        if ch == "\n":
            out.append("\\n")
        elif ch == "\r":
            out.append("\\r")
        elif ch == "\t":
            out.append("\\t")
        elif ch in "'\\":
            out.append("\\" + ch)
        else:
            out.append(ch)
    return "'" + "".join(out) + "'"


def rand_ident(rng, hostile=True):
    n = rng.randint(1, 5)
    pool = IDENT_CHARS if hostile and rng.random() < 0.5 else list("abcHeading12-_")
    s = "".join(rng.choice(pool) for _ in range(n))
    s = "".join(c for c in s if not c.isspace() or c in "\n\r\t")
    return s or "a"


def rand_str(rng, hostile=True):
    n = rng.randint(0, 6)
    pool = STR_CHARS if hostile and rng.random() < 0.6 else list("abc Heading1")
    return "".join(rng.choice(pool) for _ in range(n))


def rand_matcher(rng):
    k = rng.choice(KINDS + ["p", "p", "r"])
    m = {"kind": k}
    if k in ("p", "r", "table"):
        m["style_id"] = rand_ident(rng) if rng.random() < 0.5 else None
        m["style_name"] = (rng.choice(["=", "^="]), rand_str(rng)) if rng.random() < 0.5 else None
        if k == "p" and rng.random() < 0.4:
            m["list"] = (rng.choice(["ordered-list", "unordered-list"]), rng.choice([1, 1, 2, 3, 5, 9, 10, 123, 0]))
        else:
            m["list"] = None
    elif k == "highlight":
        m["color"] = rand_str(rng) if rng.random() < 0.6 else None
    elif k == "br":
        m["type"] = rng.choice(["line", "page", "column"])
    return m


def rand_path(rng):
    if rng.random() < 0.12:
        return "!"
    els = []
    for _ in range(rng.choice([0, 1, 1, 1, 2, 2, 3, 4])):
        e = {"names": [rand_ident(rng, rng.random() < 0.3) for _ in range(rng.choice([1, 1, 1, 2, 3]))],
             "parts": [], "fresh": rng.random() < 0.4, "separator": rand_str(rng) if rng.random() < 0.25 else None}
        if rng.random() < 0.06:
            # an explicit class attribute FOLLOWED by class shorthands: the shorthands add to it
            e["parts"].append(("attr", "class", rng.choice(["a", "big red", "x-1"])))
            e["parts"] += [("class", rand_ident(rng, False)) for _ in range(rng.randint(1, 2))]
            els.append(e)
            continue
        for _ in range(rng.choice([0, 0, 1, 1, 2, 3])):
            if rng.random() < 0.5:
                e["parts"].append(("class", rand_ident(rng)))
            else:
                e["parts"].append(("attr", rand_ident(rng, rng.random() < 0.3), rand_str(rng)))
        els.append(e)
    return els


def print_matcher(m):
    k = m["kind"]
    out = k
    if k in ("p", "r", "table"):
        if m["style_id"] is not None:
            out += "." + esc_ident(m["style_id"])
        if m["style_name"] is not None:
            out += "[style-name%s%s]" % (m["style_name"][0], esc_string(m["style_name"][1]))
        if m.get("list"):
            out += ":%s(%d)" % m["list"]
    elif k == "highlight" and m["color"] is not None:
        out += "[color=%s]" % esc_string(m["color"])
    elif k == "br":
        out += "[type=%s]" % esc_string(m["type"])
    return out


def print_path(p, rng=None):
    if p == "!":
        return "!"
    parts = []
    for e in p:
        t = "|".join(esc_ident(n) for n in e["names"])
        for part in e["parts"]:
            if part[0] == "class":
                t += "." + esc_ident(part[1])
            else:
                t += "[%s=%s]" % (esc_ident(part[1]), esc_string(part[2]))
        if e["fresh"]:
            t += ":fresh"
        if e["separator"] is not None:
            t += ":separator(%s)" % esc_string(e["separator"])
        parts.append(t)
    if rng is None:
        return " > ".join(parts)
    out = ""
    for i, t in enumerate(parts):
        if i:
            out += rng.choice(WS) + ">" + rng.choice(WS)
        out += t
    return out


def print_mapping(m, p, rng=None):
    ws1 = rng.choice(WS) if rng else " "
    ws2 = rng.choice(WS + [""]) if rng else " "
    return print_matcher(m) + ws1 + "=>" + ws2 + print_path(p, rng)


def rand_mapping_text(rng):
    return print_mapping(rand_matcher(rng), rand_path(rng), rng)


SOUP = ["p", "r", "table", "b", "br", "highlight", ".", "[", "]", "(", ")", "=>", "=", "^=", ">", "|", "!", ":", " ", "  ",
        "'", "\\", "'a'", "'a\\'b'", "style-name", "fresh", "separator", "ordered-list", "unordered-list", "12", "0", "h1",
        "color", "type", "'line'", "\t", " ", "é", "#", "\r", "\x0b", "\x1c", "\x85", " "]


def token_soup(rng, n=None):
    n = n or rng.randint(1, 12)
    return "".join(rng.choice(SOUP) for _ in range(n))


def mutate(rng, s):
    if not s:
        return s
    k = rng.random()
    i = rng.randrange(len(s))
    if k < 0.3:
        return s[:i] + s[i + 1:]
    if k < 0.6:
        return s[:i] + rng.choice(SOUP) + s[i:]
    if k < 0.8:
        return s[:i] + rng.choice(SOUP) + s[i + 1:]
    return s[:i]


def rand_codepoints(rng, n=None):
    n = n or rng.randint(1, 10)
    out = []
    for _ in range(n):
        r = rng.random()
        if r < 0.5:
            out.append(chr(rng.randint(32, 126)))
        elif r < 0.7:
            out.append(rng.choice(["\t", "\r", "\x0b", "\x0c", "\x1c", "\x1f", "\x85", "\xa0", " ", " ", " ",
                                   " ", " ", " ", "　", "﻿", "​"]))
        elif r < 0.9:
            out.append(chr(rng.choice([rng.randint(0xA0, 0x2FF), rng.randint(0x370, 0x3FF), rng.randint(0x2000, 0x206F)])))
        else:
            c = rng.randint(0x10000, 0x10FFFF)
            out.append(chr(c))
    return "".join(out)


# strings pumped from each loop of each token regex (family name -> function of n)
PUMPS = {
    "unterminated_backslashes": lambda n: "p => h1[a='" + "\\" * n,
    "unterminated_escaped_pairs": lambda n: "p => h1[a='" + "\\a" * n,
    "string_body": lambda n: "p => h1[a='" + "x" * n + "']",
    "string_quotes_escaped": lambda n: "p => h1[a='" + "\\'" * n + "']",
    "identifier_run": lambda n: "p." + "a" * n + " => p",
    "identifier_escapes": lambda n: "p." + "\\." * n + " => p",
    "identifier_trailing_backslashes": lambda n: "p." + "a\\" * n,
    "whitespace_run": lambda n: "p" + " " * n + "=> p",
    "digits": lambda n: "p:ordered-list(" + "1" * n + ") => p",
    "digits_bare": lambda n: "7" * n,
    "symbols": lambda n: "=>" * n,
    "classes": lambda n: "p => p" + ".c" * n,
    "attributes": lambda n: "p => p" + "[a='b']" * n,
    "alternatives": lambda n: "p => a" + "|b" * n,
    "quotes_only": lambda n: "'" * n,
    "backslash_quote_mix": lambda n: "'" + "\\'\\\\" * n,
    "many_lines": lambda n: "\n".join("p.s%d => h1" % i for i in range(max(1, n // 12))),
    "many_bad_lines": lambda n: "\n".join("p.s%d =>> h1" % i for i in range(max(1, n // 13))),
    "nested_path_64": lambda n: "p => " + " > ".join(["div"] * min(64, max(1, n // 6))),
}
