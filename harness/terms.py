"""Python values -> Coq terms of the model's types (and canonical JSON forms for replays)."""
from mammoth.html import nodes as hn


def s(text):
    return "[" + ";".join(str(ord(c)) for c in text) + "]"


def opt(f, v):
    return "None" if v is None else "(Some %s)" % f(v)


def lst(f, xs):
    return "[" + "; ".join(f(x) for x in xs) + "]"


def b(v):
    return "true" if v else "false"


def n(v):
    return "%d" % v


def pair(f, g):
    return lambda p: "(%s, %s)" % (f(p[0]), g(p[1]))


def attrs(d):
    """dict -> association list sorted by key (Python's sorted() on str = code point order)."""
    return lst(pair(s, s), sorted(d.items()))


# ---------------------------------------------------------------- html nodes
def tag(t):
    names = t.tag_names
    return "(mkTag %s %s %s %s %s)" % (s(names[0]), lst(s, names[1:]), attrs(t.attributes), b(t.collapsible),
                                      opt(s, t.separator))


def node(x):
    if isinstance(x, hn.TextNode):
        return "(Text %s)" % s(x.value)
    if isinstance(x, hn.Element):
        return "(Elem %s %s)" % (tag(x.tag), lst(node, x.children))
    if isinstance(x, hn.ForceWrite):
        return "Force"
    raise TypeError(x)


def forest(xs):
    return lst(node, xs)


def node_json(x):
    if isinstance(x, hn.TextNode):
        return {"text": x.value}
    if isinstance(x, hn.Element):
        return {"tag": list(x.tag.tag_names), "attrs": dict(sorted(x.tag.attributes.items())),
                "collapsible": x.tag.collapsible, "separator": x.tag.separator,
                "children": [node_json(c) for c in x.children]}
    if isinstance(x, hn.ForceWrite):
        return {"force_write": True}
    raise TypeError(x)


def node_from_json(j):
    from mammoth import html
    if "text" in j:
        return html.text(j["text"])
    if "force_write" in j:
        return html.force_write
    return hn.Element(hn.Tag(list(j["tag"]), dict(j["attrs"]), j["collapsible"], j["separator"]),
                      [node_from_json(c) for c in j["children"]])


# ---------------------------------------------------------------- style mappings
def smatch(m):
    from mammoth import document_matchers as dm
    if m.operator is dm._operator_equal_to:
        return "(SEq %s)" % s(m.value)
    if m.operator is dm._operator_starts_with:
        return "(SPrefix %s)" % s(m.value)
    raise TypeError("unknown string matcher operator %r" % (m.operator,))


def level(l):
    if not isinstance(l.level_index, str) or not isinstance(l.is_ordered, bool):
        raise TypeError("numbering level fields %r" % (l,))
    return "(mkLevel %s %s)" % (s(l.level_index), b(l.is_ordered))


def matcher(m):
    from mammoth import document_matchers as dm
    if isinstance(m, dm.ParagraphMatcher):
        return "(MParagraph %s %s %s)" % (opt(s, m.style_id), opt(smatch, m.style_name), opt(level, m.numbering))
    if isinstance(m, dm.RunMatcher):
        return "(MRun %s %s)" % (opt(s, m.style_id), opt(smatch, m.style_name))
    if isinstance(m, dm.TableMatcher):
        return "(MTable %s %s)" % (opt(s, m.style_id), opt(smatch, m.style_name))
    if isinstance(m, dm.HighlightMatcher):
        return "(MHighlight %s)" % opt(s, m.color)
    if isinstance(m, dm.BreakMatcher):
        return "(MBreak %s)" % s(m.break_type)
    for cls, name in ((dm.bold, "MBold"), (dm.italic, "MItalic"), (dm.underline, "MUnderline"),
                      (dm.strikethrough, "MStrike"), (dm.all_caps, "MAllCaps"), (dm.small_caps, "MSmallCaps"),
                      (dm.comment_reference, "MCommentRef")):
        if m is cls:
            return name
    raise TypeError("unknown matcher %r" % (m,))


def hpath(p):
    from mammoth import html_paths
    if p is html_paths.ignore:
        return "PIgnore"
    if isinstance(p, html_paths.HtmlPath):
        return "(PElems %s)" % lst(lambda e: tag(e.tag), p.elements)
    raise TypeError("unknown html path %r" % (p,))


def style(st):
    return "(mkStyle %s %s)" % (matcher(st.document_matcher), hpath(st.html_path))


def matcher_json(m):
    from mammoth import document_matchers as dm
    def sm(x):
        return None if x is None else {"op": "eq" if x.operator is dm._operator_equal_to else "prefix", "value": x.value}
    def lv(x):
        return None if x is None else {"level_index": x.level_index, "is_ordered": x.is_ordered}
    if isinstance(m, dm.ParagraphMatcher):
        return {"kind": "paragraph", "style_id": m.style_id, "style_name": sm(m.style_name), "numbering": lv(m.numbering)}
    if isinstance(m, (dm.RunMatcher, dm.TableMatcher)):
        return {"kind": m.element_type, "style_id": m.style_id, "style_name": sm(m.style_name)}
    if isinstance(m, dm.HighlightMatcher):
        return {"kind": "highlight", "color": m.color}
    if isinstance(m, dm.BreakMatcher):
        return {"kind": "break", "break_type": m.break_type}
    return {"kind": m.element_type}


def hpath_json(p):
    from mammoth import html_paths
    if p is html_paths.ignore:
        return "!"
    return [{"tag": list(e.tag.tag_names), "attrs": dict(sorted(e.tag.attributes.items())),
             "collapsible": e.tag.collapsible, "separator": e.tag.separator} for e in p.elements]


def style_json(st):
    return {"matcher": matcher_json(st.document_matcher), "path": hpath_json(st.html_path)}
