"""Python values -> Coq terms of the model's types (and canonical JSON forms for replays)."""
from mammoth.html import nodes as hn


def s(text):
    return "[" + ";".join(str(ord(c)) for c in text) + "]"


def opt(f, v):
    return "None" if v is None else "(Some %s)" % f(v)


def lst(f, xs):
    return "[" + "; ".join(f(x) for x in xs) + "]"


def b(v):
    return "true" if v else "false"


def n(v):
    return "%d" % v


def pair(f, g):
    return lambda p: "(%s, %s)" % (f(p[0]), g(p[1]))


def attrs(d):
    """dict -> association list sorted by key (Python's sorted() on str = code point order)."""
    return lst(pair(s, s), sorted(d.items()))


# ---------------------------------------------------------------- html nodes
def tag(t):
    names = t.tag_names
    return "(mkTag %s %s %s %s %s)" % (s(names[0]), lst(s, names[1:]), attrs(t.attributes), b(t.collapsible),
                                      opt(s, t.separator))


def node(x):
    if isinstance(x, hn.TextNode):
        return "(Text %s)" % s(x.value)
    if isinstance(x, hn.Element):
        return "(Elem %s %s)" % (tag(x.tag), lst(node, x.children))
    if isinstance(x, hn.ForceWrite):
        return "Force"
    raise TypeError(x)


def forest(xs):
    return lst(node, xs)


def node_json(x):
    if isinstance(x, hn.TextNode):
        return {"text": x.value}
    if isinstance(x, hn.Element):
        return {"tag": list(x.tag.tag_names), "attrs": dict(sorted(x.tag.attributes.items())),
                "collapsible": x.tag.collapsible, "separator": x.tag.separator,
                "children": [node_json(c) for c in x.children]}
    if isinstance(x, hn.ForceWrite):
        return {"force_write": True}
    raise TypeError(x)


def node_from_json(j):
    from mammoth import html
    if "text" in j:
        return html.text(j["text"])
    if "force_write" in j:
        return html.force_write
    return hn.Element(hn.Tag(list(j["tag"]), dict(j["attrs"]), j["collapsible"], j["separator"]),
                      [node_from_json(c) for c in j["children"]])


# ---------------------------------------------------------------- style mappings
def smatch(m):
    from mammoth import document_matchers as dm
    if m.operator is dm._operator_equal_to:
        return "(SEq %s)" % s(m.value)
    if m.operator is dm._operator_starts_with:
        return "(SPrefix %s)" % s(m.value)
    raise TypeError("unknown string matcher operator %r" % (m.operator,))


def level(l):
    if not isinstance(l.level_index, str) or not isinstance(l.is_ordered, bool):
        raise TypeError("numbering level fields %r" % (l,))
    return "(mkLevel %s %s)" % (s(l.level_index), b(l.is_ordered))


def matcher(m):
    from mammoth import document_matchers as dm
    if isinstance(m, dm.ParagraphMatcher):
        return "(MParagraph %s %s %s)" % (opt(s, m.style_id), opt(smatch, m.style_name), opt(level, m.numbering))
    if isinstance(m, dm.RunMatcher):
        return "(MRun %s %s)" % (opt(s, m.style_id), opt(smatch, m.style_name))
    if isinstance(m, dm.TableMatcher):
        return "(MTable %s %s)" % (opt(s, m.style_id), opt(smatch, m.style_name))
    if isinstance(m, dm.HighlightMatcher):
        return "(MHighlight %s)" % opt(s, m.color)
    if isinstance(m, dm.BreakMatcher):
        return "(MBreak %s)" % s(m.break_type)
    for cls, name in ((dm.bold, "MBold"), (dm.italic, "MItalic"), (dm.underline, "MUnderline"),
                      (dm.strikethrough, "MStrike"), (dm.all_caps, "MAllCaps"), (dm.small_caps, "MSmallCaps"),
                      (dm.comment_reference, "MCommentRef")):
        if m is cls:
            return name
    raise TypeError("unknown matcher %r" % (m,))


def hpath(p):
    from mammoth import html_paths
    if p is html_paths.ignore:
        return "PIgnore"
    if isinstance(p, html_paths.HtmlPath):
        return "(PElems %s)" % lst(lambda e: tag(e.tag), p.elements)
    raise TypeError("unknown html path %r" % (p,))


def style(st):
    return "(mkStyle %s %s)" % (matcher(st.document_matcher), hpath(st.html_path))


def matcher_json(m):
    from mammoth import document_matchers as dm
    def sm(x):
        return None if x is None else {"op": "eq" if x.operator is dm._operator_equal_to else "prefix", "value": x.value}
    def lv(x):
        return None if x is None else {"level_index": x.level_index, "is_ordered": x.is_ordered}
    if isinstance(m, dm.ParagraphMatcher):
        return {"kind": "paragraph", "style_id": m.style_id, "style_name": sm(m.style_name), "numbering": lv(m.numbering)}
    if isinstance(m, (dm.RunMatcher, dm.TableMatcher)):
        return {"kind": m.element_type, "style_id": m.style_id, "style_name": sm(m.style_name)}
    if isinstance(m, dm.HighlightMatcher):
        return {"kind": "highlight", "color": m.color}
    if isinstance(m, dm.BreakMatcher):
        return {"kind": "break", "break_type": m.break_type}
    return {"kind": m.element_type}


def hpath_json(p):
    from mammoth import html_paths
    if p is html_paths.ignore:
        return "!"
    return [{"tag": list(e.tag.tag_names), "attrs": dict(sorted(e.tag.attributes.items())),
             "collapsible": e.tag.collapsible, "separator": e.tag.separator} for e in p.elements]


def style_json(st):
    return {"matcher": matcher_json(st.document_matcher), "path": hpath_json(st.html_path)}


# ---------------------------------------------------------------- document elements
def img_src(image):
    src = getattr(image, "_verif_src", None)
    if src is None:
        raise TypeError("image without _verif_src")
    if src[0] == "data":
        return "(ImgData %s)" % lst(n, src[1])
    return "(ImgError %s)" % s(src[1])


def delem(e):
    from mammoth import documents as D
    if isinstance(e, D.Paragraph):
        return "(DParagraph %s %s %s %s)" % (lst(delem, e.children), opt(s, e.style_id), opt(s, e.style_name),
                                            opt(level, e.numbering))
    if isinstance(e, D.Run):
        return "(DRun %s %s %s %s %s %s %s %s %s %s %s)" % (
            lst(delem, e.children), opt(s, e.style_id), opt(s, e.style_name), b(e.is_bold), b(e.is_italic),
            b(e.is_underline), b(e.is_strikethrough), b(e.is_all_caps), b(e.is_small_caps), s(e.vertical_alignment),
            opt(s, e.highlight))
    if isinstance(e, D.Text):
        return "(DText %s)" % s(e.value)
    if isinstance(e, D.Hyperlink):
        if e.anchor is not None:
            tgt = "(LAnchor %s)" % s(e.anchor)
        else:
            tgt = "(LHref %s)" % s(e.href)
        return "(DHyperlink %s %s %s)" % (lst(delem, e.children), tgt, opt(s, e.target_frame))
    if isinstance(e, D.Checkbox):
        return "(DCheckbox %s)" % b(e.checked)
    if isinstance(e, D.Table):
        return "(DTable %s %s %s)" % (lst(delem, e.children), opt(s, e.style_id), opt(s, e.style_name))
    if isinstance(e, D.TableRow):
        return "(DTableRow %s %s)" % (lst(delem, e.children), b(e.is_header))
    if isinstance(e, D.TableCell):
        return "(DTableCell %s %d %d)" % (lst(delem, e.children), e.colspan, e.rowspan)
    if isinstance(e, D.Break):
        return "(DBreak %s)" % s(e.break_type)
    if isinstance(e, D.Tab):
        return "DTab"
    if isinstance(e, D.Image):
        return "(DImage %s %s %s)" % (opt(s, e.alt_text), opt(s, e.content_type), img_src(e))
    if isinstance(e, D.Bookmark):
        return "(DBookmark %s)" % s(e.name if e.name is not None else "None")
    if isinstance(e, D.NoteReference):
        return "(DNoteRef %s %s)" % (s(e.note_type), s(e.note_id))
    if isinstance(e, D.CommentReference):
        return "(DCommentRef %s)" % s(e.comment_id)
    raise TypeError("unknown document element %r" % (e,))


def document(d, notes_list):
    """notes_list: the list the Notes dict was built from (order matters for 'last wins')."""
    return "(mkDoc %s %s %s)" % (
        lst(delem, d.children),
        lst(lambda x: "(mkNote %s %s %s)" % (s(x.note_type), s(x.note_id), lst(delem, x.body)), notes_list),
        lst(lambda c: "(mkComment %s %s %s %s)" % (s(c.comment_id), lst(delem, c.body), opt(s, c.author_name),
                                                  opt(s, c.author_initials)), d.comments))


def delem_json(e):
    from mammoth import documents as D
    name = type(e).__name__
    out = {"type": name}
    for f in ("style_id", "style_name", "is_bold", "is_italic", "is_underline", "is_strikethrough", "is_all_caps",
              "is_small_caps", "vertical_alignment", "highlight", "value", "href", "anchor", "target_frame", "checked",
              "is_header", "colspan", "rowspan", "break_type", "alt_text", "content_type", "name", "note_type", "note_id",
              "comment_id"):
        if hasattr(e, f):
            out[f] = getattr(e, f)
    if isinstance(e, D.Paragraph) and e.numbering is not None:
        out["numbering"] = {"level_index": e.numbering.level_index, "is_ordered": e.numbering.is_ordered}
    if isinstance(e, D.Image):
        src = e._verif_src
        out["src"] = [src[0], list(src[1]) if src[0] == "data" else src[1]]
    if hasattr(e, "children"):
        out["children"] = [delem_json(c) for c in e.children]
    return out


def delem_from_json(j):
    from mammoth import documents as D
    from . import gen_docs
    t = j["type"]
    ch = [delem_from_json(c) for c in j.get("children", [])]
    if t == "Paragraph":
        nl = j.get("numbering")
        return D.paragraph(ch, j["style_id"], j["style_name"],
                           D.numbering_level(nl["level_index"], nl["is_ordered"]) if nl else None)
    if t == "Run":
        return D.run(ch, j["style_id"], j["style_name"], j["is_bold"], j["is_italic"], j["is_underline"],
                     j["is_strikethrough"], j["is_all_caps"], j["is_small_caps"], j["vertical_alignment"], None, None,
                     j["highlight"])
    if t == "Text":
        return D.text(j["value"])
    if t == "Hyperlink":
        return D.hyperlink(ch, j["href"], j["anchor"], j["target_frame"])
    if t == "Checkbox":
        return D.checkbox(j["checked"])
    if t == "Table":
        return D.table(ch, j["style_id"], j["style_name"])
    if t == "TableRow":
        return D.table_row(ch, j["is_header"])
    if t == "TableCell":
        return D.table_cell(ch, j["colspan"], j["rowspan"])
    if t == "Break":
        return D.Break(j["break_type"])
    if t == "Tab":
        return D.tab()
    if t == "Image":
        return gen_docs.mk_image(j["alt_text"], j["content_type"], (j["src"][0], bytes(j["src"][1]) if j["src"][0] == "data" else j["src"][1]))
    if t == "Bookmark":
        return D.bookmark(j["name"])
    if t == "NoteReference":
        return D.note_reference(j["note_type"], j["note_id"])
    if t == "CommentReference":
        return D.comment_reference(j["comment_id"])
    raise TypeError(t)


# ---------------------------------------------------------------- XML trees
def xml(x):
    from mammoth.docx.xmlparser import XmlElement, XmlText
    if isinstance(x, XmlText):
        return "(XText %s)" % s(x.value)
    if isinstance(x, XmlElement):
        return "(XElem %s %s %s)" % (s(x.name), attrs(x.attributes), lst(xml, x.children))
    raise TypeError(x)


def attach_image_sources(elements):
    """Walk document elements returned by the reader; open every image once and record what it yields."""
    from mammoth import documents as D
    from mammoth.docx.files import InvalidFileReferenceError
    for e in elements:
        if isinstance(e, D.Image):
            if not hasattr(e, "_verif_src"):
                try:
                    with e.open() as fh:
                        e._verif_src = ("data", list(fh.read()))
                except InvalidFileReferenceError as err:
                    e._verif_src = ("error", str(err))
        for c in getattr(e, "children", None) or []:
            attach_image_sources([c])
