"""Python values -> Coq terms of the model's types (and canonical JSON forms for replays)."""
from mammoth.html import nodes as hn


def s(text):
    return "[" + ";".join(str(ord(c)) for c in text) + "]"


def opt(f, v):
    return "None" if v is None else "(Some %s)" % f(v)


def lst(f, xs):
    return "[" + "; ".join(f(x) for x in xs) + "]"


def b(v):
    return "true" if v else "false"


def n(v):
    return "%d" % v


def pair(f, g):
    return lambda p: "(%s, %s)" % (f(p[0]), g(p[1]))


def attrs(d):
    """dict -> association list sorted by key (Python's sorted() on str = code point order)."""
    return lst(pair(s, s), sorted(d.items()))


# ---------------------------------------------------------------- html nodes
def tag(t):
    names = t.tag_names
    return "(mkTag %s %s %s %s %s)" % (s(names[0]), lst(s, names[1:]), attrs(t.attributes), b(t.collapsible),
                                      opt(s, t.separator))


def node(x):
    if isinstance(x, hn.TextNode):
        return "(Text %s)" % s(x.value)
    if isinstance(x, hn.Element):
        return "(Elem %s %s)" % (tag(x.tag), lst(node, x.children))
    if isinstance(x, hn.ForceWrite):
        return "Force"
    raise TypeError(x)


def forest(xs):
    return lst(node, xs)


def node_json(x):
    if isinstance(x, hn.TextNode):
        return {"text": x.value}
    if isinstance(x, hn.Element):
        return {"tag": list(x.tag.tag_names), "attrs": dict(sorted(x.tag.attributes.items())),
                "collapsible": x.tag.collapsible, "separator": x.tag.separator,
                "children": [node_json(c) for c in x.children]}
    if isinstance(x, hn.ForceWrite):
        return {"force_write": True}
    raise TypeError(x)


def node_from_json(j):
    from mammoth import html
    if "text" in j:
        return html.text(j["text"])
    if "force_write" in j:
        return html.force_write
    return hn.Element(hn.Tag(list(j["tag"]), dict(j["attrs"]), j["collapsible"], j["separator"]),
                      [node_from_json(c) for c in j["children"]])
