"""Greedy tree shrinking of XML bodies against an in-kernel disagreement predicate."""
from mammoth.docx.xmlparser import XmlElement


def variants(body):
    """All bodies obtained by deleting one node (at any depth) or replacing a node by its children."""
    out = []

    def rec(nodes, rebuild):
        for i, n in enumerate(nodes):
            out.append(rebuild(nodes[:i] + nodes[i + 1:]))
            if isinstance(n, XmlElement) and n.children:
                out.append(rebuild(nodes[:i] + list(n.children) + nodes[i + 1:]))
                rec(list(n.children),
                    lambda kids, i=i, n=n, nodes=nodes, rebuild=rebuild: rebuild(
                        nodes[:i] + [XmlElement(n.name, n.attributes, kids)] + nodes[i + 1:]))
            if isinstance(n, XmlElement) and n.attributes:
                for k in list(n.attributes):
                    a = dict(n.attributes)
                    del a[k]
                    out.append(rebuild(nodes[:i] + [XmlElement(n.name, a, n.children)] + nodes[i + 1:]))
    rec(list(body), lambda x: x)
    return out


def shrink(body, is_bad_batch, max_rounds=30, per_round=40):
    """is_bad_batch(list of bodies) -> list of indices that are still bad.  Each round tries the
    per_round smallest variants (big deletions first)."""
    for _ in range(max_rounds):
        vs = sorted(variants(body), key=lambda b: len(repr(b)))[:per_round]
        if not vs:
            break
        bad = is_bad_batch(vs)
        if not bad:
            vs2 = sorted(variants(body), key=lambda b: len(repr(b)))[per_round:per_round * 4]
            bad = is_bad_batch(vs2) if vs2 else []
            if not bad:
                break
            vs = vs2
        body = vs[bad[0]]
    return body
