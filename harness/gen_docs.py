"""Generators of mammoth.documents trees (document level: what docx.read would have produced)."""
import contextlib
import io

from mammoth import documents as D
from mammoth.docx.files import InvalidFileReferenceError

from .gen_html import HOSTILE

STYLES = [(None, None), ("Heading1", "Heading 1"), ("Heading2", "heading 2"), ("H3", "Heading 3"), ("Quote", "Intense Quote"),
          ("Normal", "Normal"), ("Weird", None), ("ListParagraph", "List Paragraph"), ("a<b", 'n"&m'), ("Strong", "Strong"),
          ("Hyperlink", "Hyperlink"), ("Ünï", "straße"), ("FootnoteText", "footnote text")]
COLORS = ["yellow", "red", "none-ish", "a<b"]
BREAKS = ["line", "page", "column", "weird"]


def mk_image(alt, ctype, src):
    if src[0] == "data":
        data = bytes(src[1])

        def open_():
            return contextlib.closing(io.BytesIO(data))
    else:
        msg = src[1]

        def open_():
            raise InvalidFileReferenceError(msg)
    img = D.image(alt_text=alt, content_type=ctype, open=open_)
    img._verif_src = ("data", list(data)) if src[0] == "data" else ("error", src[1])
    return img


class Gen:
    def __init__(self, rng, hostile=0.3, p_style=0.5, p_prop=0.2, notes=True, comments=True, tables=True, images=True,
                 links=True, numbering=0.25, breaks=True, max_depth=3, text_pool=None):
        self.rng = rng
        self.hostile = hostile
        self.p_style = p_style
        self.p_prop = p_prop
        self.notes_on, self.comments_on, self.tables_on, self.images_on, self.links_on = notes, comments, tables, images, links
        self.numbering = numbering
        self.breaks_on = breaks
        self.max_depth = max_depth
        self.note_ids = []
        self.comment_ids = []
        self.counter = 0
        self.text_pool = text_pool

    def text(self):
        r = self.rng
        self.counter += 1
        if self.text_pool:
            return r.choice(self.text_pool)
        if r.random() < 0.08:
            return ""
        if r.random() < self.hostile:
            return "".join(r.choice(HOSTILE) for _ in range(r.randint(1, 3)))
        return "t%d" % self.counter + r.choice(["", " ", " x"])

    def style(self):
        return self.rng.choice(STYLES) if self.rng.random() < self.p_style else (None, None)

    def inline(self, depth):
        r = self.rng
        k = r.random()
        if k < 0.55:
            return D.text(self.text())
        if k < 0.60:
            return D.tab()
        if k < 0.66 and self.breaks_on:
            return D.Break(r.choice(BREAKS))
        if k < 0.72:
            return D.bookmark(r.choice(["b1", "b2", "_x", 'q"<', "footnote-1"]))
        if k < 0.78 and self.notes_on:
            ty = r.choice(["footnote", "endnote"])
            nid = str(len(self.note_ids) + 1)
            self.note_ids.append((ty, nid))
            return D.note_reference(ty, nid)
        if k < 0.82 and self.comments_on:
            cid = str(len(self.comment_ids))
            self.comment_ids.append(cid)
            return D.comment_reference(cid)
        if k < 0.88 and self.images_on:
            src = ("data", bytes(r.randrange(256) for _ in range(r.choice([0, 1, 2, 3, 4, 5, 10])))) if r.random() < 0.85 \
                else ("error", "could not open external image: 'x' <&>")
            return mk_image(r.choice([None, "", "alt", 'a"<t', "  "]), r.choice(["image/png", "image/jpeg", None, "image/x-emf", "weird"]), src)
        if k < 0.91:
            return D.checkbox(r.random() < 0.5)
        if k < 0.95 and depth < self.max_depth:
            # a text box hosted in a run through w:object is read as block content INSIDE the run
            return self.paragraph(depth + 1) if r.random() < 0.7 or not self.tables_on else self.table(depth + 1)
        return D.text(self.text())

    def run(self, depth):
        r = self.rng
        sid, sname = self.style() if r.random() < 0.4 else (None, None)
        p = self.p_prop
        return D.run([self.inline(depth) for _ in range(r.choice([0, 1, 1, 1, 2, 3]))], sid, sname,
                     is_bold=r.random() < p, is_italic=r.random() < p, is_underline=r.random() < p,
                     is_strikethrough=r.random() < p, is_all_caps=r.random() < p, is_small_caps=r.random() < p,
                     vertical_alignment=r.choice(["baseline"] * 6 + ["superscript", "subscript", "weird"]),
                     highlight=r.choice([None] * 5 + COLORS))

    def para_child(self, depth):
        r = self.rng
        k = r.random()
        if k < 0.7 or not self.links_on:
            return self.run(depth)
        if k < 0.85:
            kids = [self.run(depth) for _ in range(r.choice([0, 1, 2]))]
            if r.random() < 0.5:
                return D.hyperlink(kids, href=r.choice(["http://e.com", "http://e.com/?a=1&b=2#f", 'x"y', ""]),
                                   target_frame=r.choice([None, None, "_blank"]))
            return D.hyperlink(kids, anchor=r.choice(["b1", "top", 'q"<']), target_frame=r.choice([None, None, "_blank"]))
        if k < 0.9:
            return D.bookmark(r.choice(["b1", "b3"]))
        return self.inline(depth)

    def paragraph(self, depth=0):
        r = self.rng
        sid, sname = self.style()
        num = None
        if r.random() < self.numbering:
            num = D.numbering_level(str(r.choice([0, 0, 1, 1, 2, 3, 4, 5, 7])), r.random() < 0.5)
        return D.paragraph([self.para_child(depth) for _ in range(r.choice([0, 1, 1, 2, 3]))], sid, sname, num)

    def table(self, depth):
        r = self.rng
        rows = []
        nrows = r.randint(0, 3)
        nhead = r.choice([0, 0, 1, 2])
        for i in range(nrows):
            cells = []
            for _ in range(r.randint(0, 3)):
                cells.append(D.table_cell(self.blocks(depth + 1, r.choice([0, 1, 1, 2])), colspan=r.choice([1, 1, 1, 2, 3]),
                                          rowspan=r.choice([1, 1, 1, 2])))
            rows.append(D.table_row(cells, is_header=(i < nhead) or r.random() < 0.1))
        if r.random() < 0.1:
            rows.insert(r.randint(0, len(rows)), self.paragraph(depth + 1))
        sid, sname = self.style() if r.random() < 0.3 else (None, None)
        return D.table(rows, sid, sname)

    def blocks(self, depth, n):
        out = []
        for _ in range(n):
            if self.tables_on and depth < self.max_depth and self.rng.random() < 0.15:
                out.append(self.table(depth))
            else:
                out.append(self.paragraph(depth))
        return out

    def document(self, n=None):
        r = self.rng
        body = self.blocks(0, n if n is not None else r.randint(0, 6))
        notes = []
        # notes may themselves contain references (to later notes)
        i = 0
        while i < len(self.note_ids):
            ty, nid = self.note_ids[i]
            notes.append(D.note(ty, nid, self.blocks(2, r.choice([0, 1, 1, 2]))))
            i += 1
            if len(self.note_ids) > 12:
                self.notes_on = False
        comments = []
        self.comments_on = False  # comment bodies never refer to comments (self-reference loops forever)
        for cid in self.comment_ids:
            comments.append(D.comment(cid, self.blocks(2, r.choice([0, 1, 2])), r.choice([None, "Ann"]),
                                      r.choice([None, "", "AB", "<i>"])))
        r.shuffle(notes)
        doc = D.document(body, D.notes(notes), comments)
        return doc, notes
