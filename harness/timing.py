"""Child process of the C07 timing ladder: python -m harness.timing <family> <top>"""
import sys
import time

from mammoth import options

from . import gen_styles as G


def main():
    fam, top = sys.argv[1], int(sys.argv[2])
    n = 16
    while n <= top:
        text = G.PUMPS[fam](n)
        t = time.perf_counter()
        try:
            options.read_options({"style_map": text})
        except RecursionError as e:
            print("ERR RecursionError at n=%d" % n, flush=True)
            break
        except Exception as e:
            print("ERR %s at n=%d: %s" % (type(e).__name__, n, str(e)[:80]), flush=True)
            break
        dt = time.perf_counter() - t
        print("T %d %.6f" % (n, dt), flush=True)
        if dt > 30:
            break
        n *= 2


main()
