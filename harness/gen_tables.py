"""Rectangle tilings of an R x C grid and their WordprocessingML encodings."""
import itertools


def all_tilings(R, C):
    """Yields tilings as lists of rectangles (r, c, h, w) covering the R x C grid exactly."""
    grid = [[False] * C for _ in range(R)]

    def rec(rects):
        pos = None
        for r in range(R):
            for c in range(C):
                if not grid[r][c]:
                    pos = (r, c)
                    break
            if pos:
                break
        if pos is None:
            yield list(rects)
            return
        r, c = pos
        maxw = 0
        while c + maxw < C and not grid[r][c + maxw]:
            maxw += 1
        for w in range(1, maxw + 1):
            for h in range(1, R - r + 1):
                if any(grid[r + i][c + j] for i in range(h) for j in range(w)):
                    break
                for i in range(h):
                    for j in range(w):
                        grid[r + i][c + j] = True
                rects.append((r, c, h, w))
                yield from rec(rects)
                rects.pop()
                for i in range(h):
                    for j in range(w):
                        grid[r + i][c + j] = False
    yield from rec([])


def random_tiling(rng, R, C):
    grid = [[False] * C for _ in range(R)]
    rects = []
    for r in range(R):
        for c in range(C):
            if grid[r][c]:
                continue
            maxw = 0
            while c + maxw < C and not grid[r][c + maxw]:
                maxw += 1
            w = rng.randint(1, maxw) if rng.random() < 0.5 else 1
            h = 1
            while r + h < R and rng.random() < 0.35 and not any(grid[r + h][c + j] for j in range(w)):
                h += 1
            for i in range(h):
                for j in range(w):
                    grid[r + i][c + j] = True
            rects.append((r, c, h, w))
    return rects


def encode(rects, R, C):
    """rows of cells: (id, span, kind) with kind in {'none','restart','continue'}; id = index+1 of the rectangle
    for its first row, a fresh id (1000+) for continuation cells.  Also returns the owner grid."""
    rows = [[] for _ in range(R)]
    grid = [[None] * C for _ in range(R)]
    fresh = 1000
    for k, (r, c, h, w) in enumerate(rects):
        for i in range(h):
            for j in range(w):
                grid[r + i][c + j] = k + 1
            if i == 0:
                rows[r].append((c, k + 1, w, "restart" if h > 1 else "none"))
            else:
                fresh += 1
                rows[r + i].append((c, fresh, w, "continue"))
    return [[(cid, w, kind) for _, cid, w, kind in sorted(row)] for row in rows], grid


def html_layout(rows):
    """rows: list of lists of (id, colspan, rowspan).  Standard HTML table layout; returns grid of ids
    (ragged rows padded with None) or raises ValueError on overlap."""
    occupied = {}
    out = []
    width = 0
    for r, row in enumerate(rows):
        c = 0
        for cid, cs, rs in row:
            while (r, c) in occupied:
                c += 1
            for i in range(rs):
                for j in range(cs):
                    if (r + i, c + j) in occupied:
                        raise ValueError("overlap at %d,%d" % (r + i, c + j))
                    occupied[(r + i, c + j)] = cid
            c += cs
        width = max([width] + [cc + 1 for (rr, cc) in occupied if rr == r])
    nrows = len(rows)
    if any(rr >= nrows for rr, _ in occupied):
        raise ValueError("rowspan extends past the table")
    return [[occupied.get((r, c)) for c in range(width)] for r in range(nrows)]
