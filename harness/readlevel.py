"""Reader-level correspondence: mammoth.docx.body_xml reader (+ the part readers) vs Model/Reader.v, Model/Parts.v."""
import contextlib
import io

from mammoth.docx import body_xml, styles_xml, numbering_xml, relationships_xml, content_types_xml
from mammoth.docx.files import InvalidFileReferenceError
from mammoth.docx.xmlparser import element as X

from . import terms as T

HEADER = """From Mammoth Require Import Reader DelemEq.
Local Open Scope N_scope.
(* parts: styles root, numbering root (None = part absent), relationships, content-types root *)
Definition mk_env (sx nx : option xml) (rels : list rel) (cx : option xml) (entries : list (str * list N))
           (linked : list (str * img_src)) (base : bool) : outcome renv :=
  st <- match sx with Some x => read_styles x | None => Ok styles_empty end ;;
  nm <- match nx with Some x => read_numbering x st | None => Ok numbering_empty end ;;
  ct <- match cx with Some x => read_ctypes x | None => Ok ctypes_empty end ;;
  Ok (mkEnv nm ct rels st entries linked base).
Definition chk_read (c : option xml * option xml * list rel * option xml * list (str * list N) * list (str * img_src)
                         * list xml * option (list delem * list str)) : bool :=
  let '(sx, nx, rels, cx, entries, linked, body, obs) := c in
  match (env <- mk_env sx nx rels cx entries linked true ;; body_read_all env body rs_init), obs with
  | Ok (els, msgs, _), Some (els', msgs') => list_eqb delem_eqb els els' && list_eqb str_eqb msgs msgs'
  | Crash _, None => true
  | _, _ => false
  end.
"""
CASE_TYPE = ("option xml * option xml * list rel * option xml * list (str * list N) * list (str * img_src) "
             "* list xml * option (list delem * list str)")


class FakeZip:
    def __init__(self, entries):
        self.entries = entries

    def open(self, name):
        return contextlib.closing(io.BytesIO(self.entries[name]))

    def exists(self, name):
        return name in self.entries


class FakeFiles:
    def __init__(self, linked):
        self.linked = linked

    def open(self, uri):
        kind, val = self.linked.get(uri, ("error", None))
        if kind == "data":
            return contextlib.closing(io.BytesIO(val))
        raise InvalidFileReferenceError("could not open external image")


def part_roots(pkg):
    sx = X("w:styles", {}, pkg.styles) if pkg.styles is not None else None
    nx = X("w:numbering", {}, pkg.numbering) if pkg.numbering is not None else None
    cx = X("content-types:Types", {},
           [X("content-types:Default", {"Extension": e, "ContentType": c}) for e, c in pkg.content_types["defaults"]] +
           [X("content-types:Override", {"PartName": p, "ContentType": c}) for p, c in pkg.content_types["overrides"]])
    rx = X("relationships:Relationships", {},
           [X("relationships:Relationship", {"Id": i, "Target": t, "Type": ty}) for i, t, ty in pkg.rels])
    return sx, nx, cx, rx


def make_reader(pkg):
    sx, nx, cx, rx = part_roots(pkg)
    styles = styles_xml.read_styles_xml_element(sx) if sx is not None else styles_xml.Styles.EMPTY
    numbering = numbering_xml.read_numbering_xml_element(nx, styles=styles) if nx is not None else numbering_xml.Numbering.EMPTY
    rels = relationships_xml.read_relationships_xml_element(rx)
    cts = content_types_xml.read_content_types_xml_element(cx)
    return body_xml.reader(numbering=numbering, content_types=cts, relationships=rels, styles=styles,
                           docx_file=FakeZip(pkg.media), files=FakeFiles(pkg.linked))


def observe(pkg, body=None):
    body = pkg.body if body is None else body
    try:
        reader = make_reader(pkg)
        r = reader.read_all(body)
        T.attach_image_sources(r.value)
        return r
    except InvalidFileReferenceError:
        raise
    except Exception as e:
        return e


def case_term(pkg, res, body=None):
    body = pkg.body if body is None else body
    sx, nx, cx, rx = part_roots(pkg)
    rels = T.lst(lambda r: "(mkRel %s %s %s)" % (T.s(r[0]), T.s(r[1]), T.s(r[2])), pkg.rels)
    entries = T.lst(lambda kv: "(%s, %s)" % (T.s(kv[0]), T.lst(T.n, list(kv[1]))), sorted(pkg.media.items()))
    linked = T.lst(lambda kv: "(%s, %s)" % (T.s(kv[0]), "(ImgData %s)" % T.lst(T.n, list(kv[1][1])) if kv[1][0] == "data"
                                           else "(ImgError %s)" % T.s("could not open external image")), sorted(pkg.linked.items()))
    if isinstance(res, Exception):
        obs = "None"
    else:
        obs = "(Some (%s, %s))" % (T.lst(T.delem, res.value), T.lst(lambda m: T.s(m.message), res.messages))
    return "(%s, %s, %s, %s, %s, %s, %s, %s)" % (T.opt(T.xml, sx), T.opt(T.xml, nx), rels, T.opt(T.xml, cx), entries, linked,
                                                T.lst(T.xml, body), obs)
