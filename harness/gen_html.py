"""Generators of HTML node forests (mammoth.html.nodes objects)."""
import itertools

from mammoth import html
from mammoth.html import nodes as hn

# (names, attrs, collapsible, separator)
TAGS_SMALL = [
    (["p"], {}, True, None),
    (["p"], {}, False, None),
    (["p"], {"a": "1"}, True, None),
    (["ul", "ol"], {}, True, None),
    (["ol"], {}, True, None),
    (["p"], {}, True, "-"),
    (["p"], {}, True, ""),
    (["br"], {}, False, None),
]
LEAVES_SMALL = ["", "x", None]  # None = force_write


def mk_tag(spec):
    names, attrs, coll, sep = spec
    return hn.Tag(list(names), dict(attrs), coll, sep)


def mk_leaf(l):
    return html.force_write if l is None else html.text(l)


def enum_trees(n, tags, leaves):
    """All trees with exactly n nodes."""
    if n == 1:
        for l in leaves:
            yield ("leaf", l)
    if n >= 1:
        for t in range(len(tags)):
            for f in enum_forests_exact(n - 1, tags, leaves):
                yield ("elem", t, f)


def enum_forests_exact(n, tags, leaves):
    """All forests with exactly n nodes (as nested tuples)."""
    if n == 0:
        yield ()
        return
    for k in range(1, n + 1):
        for first in enum_trees(k, tags, leaves):
            for rest in enum_forests_exact(n - k, tags, leaves):
                yield (first,) + rest


def build(shape, tags):
    out = []
    for x in shape:
        if x[0] == "leaf":
            out.append(mk_leaf(x[1]))
        else:
            out.append(hn.Element(mk_tag(tags[x[1]]), build(x[2], tags)))
    return out


def all_forests(max_nodes, tags=TAGS_SMALL, leaves=LEAVES_SMALL):
    for n in range(0, max_nodes + 1):
        for shape in enum_forests_exact(n, tags, leaves):
            yield build(shape, tags)


NAMES = ["p", "ul", "ol", "li", "a", "br", "img", "strong", "em", "h1", "table", "input", "hr", "span"]
HOSTILE = ["", "x", "a b", "<", ">", "&", '"', "'", "&lt;", "&#60;", "&amp;", ";", "#", "é", "\U0001f600",
           "\t", "\n", " ", "]]>", "<!--", "</p>", " ", "\x00"[:0] or "z",
           # strings that any Unicode normalisation or case mapping would change, also when they follow a tag's `>` or a quote
           "\u0338", "\u0338x", "e\u0301", "\u0301", "\u1100\u1161", "\u212b", "\ufb01", "\u0130", "\u00df"]


def rand_string(rng, hostile=True):
    k = rng.random()
    if k < 0.15:
        return ""
    if k < 0.5 or not hostile:
        return "".join(rng.choice("abxyz ") for _ in range(rng.randint(1, 4)))
    return "".join(rng.choice(HOSTILE) for _ in range(rng.randint(1, 4)))


def rand_attrs(rng):
    d = {}
    for _ in range(rng.choice([0, 0, 0, 1, 1, 2])):
        d[rng.choice(["a", "b", "class", "href", "id"])] = rng.choice(["1", "2", "", 'q"<&>']) if rng.random() < 0.5 else rand_string(rng)
    return d


def rand_tag(rng):
    k = rng.randint(1, 3) if rng.random() < 0.3 else 1
    names = [rng.choice(NAMES[:6] if rng.random() < 0.7 else NAMES) for _ in range(k)]
    sep = rng.choice([None, None, None, "", "-", ", ", "<&"])
    return hn.Tag(names, rand_attrs(rng), rng.random() < 0.65, sep)


def rand_forest(rng, budget, depth=0):
    out = []
    while budget > 0 and rng.random() < 0.85:
        k = rng.random()
        if k < 0.25 or depth > 6:
            out.append(html.text(rand_string(rng)))
            budget -= 1
        elif k < 0.32:
            out.append(html.force_write)
            budget -= 1
        else:
            sub = rng.randint(0, max(0, budget - 1))
            out.append(hn.Element(rand_tag(rng), rand_forest(rng, sub, depth + 1)))
            budget -= 1 + sub
    return out


def size(ns):
    return sum(1 + (size(x.children) if isinstance(x, hn.Element) else 0) for x in ns)


# a deliberately tiny alphabet: random forests over it merge (and refuse to merge) all the time
TAGS_MERGY = TAGS_SMALL + [(["ol", "ul"], {}, True, None), (["ul"], {}, True, None), (["ul", "ol"], {}, False, None),
                           (["ol"], {"a": "1"}, True, "-"), (["p", "ol"], {}, True, None)]


def rand_forest_small(rng, budget, depth=0):
    out = []
    while budget > 0 and rng.random() < 0.9:
        k = rng.random()
        if k < 0.2 or depth > 5:
            out.append(mk_leaf(rng.choice(LEAVES_SMALL)))
            budget -= 1
        else:
            sub = rng.randint(0, max(0, budget - 1))
            out.append(hn.Element(mk_tag(rng.choice(TAGS_MERGY)), rand_forest_small(rng, sub, depth + 1)))
            budget -= 1 + sub
    return out


# two names and their alternatives only: deep chains of merges through `|` alternatives
TAGS_TINY = [(["ul"], {}, True, None), (["ol"], {}, True, None), (["ul", "ol"], {}, True, None), (["ol", "ul"], {}, True, None),
             (["ul"], {}, False, None), (["ol"], {}, True, "-")]


def rand_forest_tiny(rng, budget, depth=0):
    out = []
    while budget > 0 and (rng.random() < 0.92 or not out):
        if depth > 0 and rng.random() < 0.12:
            out.append(mk_leaf(rng.choice(["x", None])))
            budget -= 1
        else:
            sub = rng.randint(0, max(0, budget - 1)) if depth < 3 else 0
            out.append(hn.Element(mk_tag(rng.choice(TAGS_TINY[:4] if rng.random() < 0.8 else TAGS_TINY)), rand_forest_tiny(rng, sub, depth + 1)))
            budget -= 1 + sub
    return out
