"""Executable statements of the forest-level properties (C04, C14, C02), written from the
property texts, evaluated on the implementation's own inputs/outputs (JSON forms of terms.node_json)."""
import copy
import html as pyhtml
import re

VOID = ("br", "hr", "img", "input")


# ------------------------------------------------------------------ C04
def spec_collapse(forest):
    out = []
    for n in forest:
        _add(out, _collapse_node(n))
    return out


def _collapse_node(n):
    if "tag" in n:
        m = dict(n)
        m["children"] = spec_collapse(n["children"])
        return m
    return n


def mergeable(last, n):
    return ("tag" in last and "tag" in n and n["collapsible"] and last["tag"][0] in n["tag"]
            and last["attrs"] == n["attrs"])


def _add(out, cn):
    if out and mergeable(out[-1], cn):
        last = out[-1]
        if cn["separator"]:
            last["children"].append({"text": cn["separator"]})
        for c in cn["children"]:
            _add(last["children"], c)
    else:
        out.append(copy.deepcopy(cn))


def text_of(forest):
    return "".join(n["text"] if "text" in n else text_of(n["children"]) if "tag" in n else "" for n in forest)


def leaves(forest, chain=()):
    """(ancestor chain, leaf) in order; chain entries are (names, attrs)."""
    out = []
    for n in forest:
        if "tag" in n:
            out += leaves(n["children"], chain + ((tuple(n["tag"]), tuple(sorted(n["attrs"].items()))),))
        elif "text" in n:
            out.append((chain, ("t", n["text"])))
        else:
            out.append((chain, ("f",)))
    return out


def has_separator(forest):
    return any("tag" in n and (n["separator"] or has_separator(n["children"])) for n in forest)


def check_collapse(inp, out, out2, inp_after):
    """Returns None or a description of how the property is violated."""
    if inp_after != inp:
        return "collapse modified the tree it was given"
    exp = spec_collapse(copy.deepcopy(inp))
    if out != exp:
        return "merged forest differs from the freshness rules"
    if out2 != out:
        return "collapse is not idempotent"
    if not has_separator(inp):
        li, lo = leaves(inp), leaves(out)
        if [l for _, l in li] != [l for _, l in lo]:
            return "leaves lost, duplicated or reordered"
        # every single join is between an element and a later one whose names include the earlier one's tag, attributes
        # identical; a leaf may pass through several joins (its `ol` parent joins an earlier `ol|ul`, which joins an
        # earlier `ul`), so its final ancestor is related to its original one by a CHAIN of such joins
        # (Proofs/HtmlCollapseSpec.v: match_star) over the tags of the input
        tags = set()

        def collect(forest):
            for n in forest:
                if "tag" in n:
                    tags.add((tuple(n["tag"]), tuple(sorted(n["attrs"].items()))))
                    collect(n["children"])
        collect(inp)
        reach = {}
        for start in tags:
            seen, todo = {start}, [start]
            while todo:
                l = todo.pop()
                for n2 in tags:
                    if n2 not in seen and l[0][0] in n2[0] and l[1] == n2[1]:
                        seen.add(n2)
                        todo.append(n2)
            reach[start] = seen
        for (ci, _), (co, _) in zip(li, lo):
            if len(ci) != len(co) or any(o not in reach or i not in reach[o] for i, o in zip(ci, co)):
                return "a leaf ended up under elements with different tags or attributes"
    return None


# ------------------------------------------------------------------ C14
def keep(n):
    if "text" in n:
        return n["text"] != ""
    if "tag" in n:
        return any(keep(c) for c in n["children"]) or (not n["children"] and n["tag"][0] in VOID)
    return True


def spec_strip(forest):
    out = []
    for n in forest:
        if not keep(n):
            continue
        if "tag" in n:
            m = dict(n)
            m["children"] = spec_strip(n["children"])
            out.append(m)
        else:
            out.append(n)
    return out


def no_empty_elements(forest):
    for n in forest:
        if "tag" in n:
            if not n["children"] and n["tag"][0] not in VOID:
                return False
            if not no_empty_elements(n["children"]):
                return False
        elif "text" in n and n["text"] == "":
            return False
    return True


# ------------------------------------------------------------------ C02: strict tokenizer
TOKEN = re.compile(r'<(/?)([^\s<>/"=&]+)((?: [^\s<>/"=&]+="[^"<>]*")*)( /)?>|([^<>]+)', re.S)
ATTR = re.compile(r' ([^\s<>/"=&]+)="([^"<>]*)"')
ENT = re.compile(r"&(amp|lt|gt|quot);")


def strict_parse(s):
    """Independent strict reader of the HTML fragment: returns forest JSON (names/attrs/children/text)
    or raises ValueError.  Accepts exactly: <n a="v" ...>, </n>, <n ... />, text; & only as one of the
    four entities; < > never in text; \" never in text or values."""
    pos = 0
    root = {"children": []}
    stack = [root]
    while pos < len(s):
        m = TOKEN.match(s, pos)
        if not m:
            raise ValueError("bad markup at %d: %r" % (pos, s[pos:pos + 20]))
        pos = m.end()
        if m.group(5) is not None:
            t = m.group(5)
            if '"' in t:
                raise ValueError("raw quote in text")
            stack[-1]["children"].append({"text": _decode(t)})
            continue
        close, name, attrs, selfc = m.group(1), m.group(2), m.group(3), m.group(4)
        if close:
            if attrs or selfc:
                raise ValueError("attributes on end tag")
            if len(stack) == 1 or stack[-1]["name"] != name:
                raise ValueError("unbalanced end tag %s" % name)
            stack.pop()
            continue
        ad = {}
        for am in ATTR.finditer(attrs):
            if am.group(1) in ad:
                raise ValueError("duplicate attribute")
            ad[am.group(1)] = _decode(am.group(2))
        el = {"name": name, "attrs": ad, "children": [], "self_closed": bool(selfc)}
        stack[-1]["children"].append(el)
        if not selfc:
            stack.append(el)
    if len(stack) != 1:
        raise ValueError("unclosed element %s" % stack[-1]["name"])
    return root["children"]


def _decode(t):
    # every & must start one of the four entities
    for m in re.finditer("&", t):
        if not ENT.match(t, m.start()):
            raise ValueError("stray ampersand")
    return ENT.sub(lambda m: {"amp": "&", "lt": "<", "gt": ">", "quot": '"'}[m.group(1)], t)


def norm_forest(forest):
    """What a written forest should parse back to: Force dropped, adjacent/empty text merged."""
    out = []
    for n in forest:
        if "text" in n:
            if n["text"] == "":
                continue
            if out and "text" in out[-1]:
                out[-1] = {"text": out[-1]["text"] + n["text"]}
            else:
                out.append({"text": n["text"]})
        elif "tag" in n:
            void = not n["children"] and n["tag"][0] in VOID
            out.append({"name": n["tag"][0], "attrs": dict(n["attrs"]), "children": norm_forest(n["children"]),
                        "self_closed": void})
    return out


def text_of_parsed(forest):
    return "".join(n["text"] if "text" in n else text_of_parsed(n["children"]) for n in forest)
