"""End-to-end correspondence: mammoth.convert_to_html / extract_raw_text on a real .docx vs Model/Api.v."""
import io
import os
import shutil
import tempfile

import mammoth
from mammoth.docx.files import Files, InvalidFileReferenceError

from . import docx_builder as B, doclevel, terms as T

HEADER = """From Mammoth Require Import Api Dom.
Local Open Scope N_scope.
Definition res_eqb (a : outcome (str * list str)) (obs : option (str * list str)) : bool :=
  match a, obs with
  | Ok (h, ms), Some (h', ms') => str_eqb h h' && list_eqb str_eqb ms ms'
  | Crash _, None => true
  | _, _ => false
  end.
(* (parts, named, linked, options, observed html result, observed raw-text result) *)
(* (parts, options, observed markdown result) *)
Definition chk_md (c : list (str * dpart) * api_opts * option (str * list str)) : bool :=
  let '(parts, a, obs) := c in
  res_eqb (convert_to_markdown (mkSource (package_of parts) false []) a) obs.
Definition chk_api (c : list (str * dpart) * bool * list (str * img_src) * api_opts
                        * option (str * list str) * option (str * list str)) : bool :=
  let '(parts, named, linked, a, obs_html, obs_raw) := c in
  let s := mkSource (package_of parts) named linked in
  res_eqb (convert_to_html s a) obs_html && res_eqb (extract_raw_text s) obs_raw.
"""
CASE_TYPE = ("list (str * dpart) * bool * list (str * img_src) * api_opts * option (str * list str) * option (str * list str)")


class Workdir:
    """A scratch directory outside /repo and /verif, removed on exit."""
    def __enter__(self):
        self.path = tempfile.mkdtemp(prefix="mverif_", dir=os.environ.get("VERIF_SCRATCH", "/var/tmp"))
        return self

    def __exit__(self, *a):
        shutil.rmtree(self.path, ignore_errors=True)


def linked_outcomes(pkg, base):
    """What opening each external target yields in this environment (files on disk under `base`)."""
    out = {}
    files = Files(base)
    for target, (kind, data) in pkg.linked.items():
        if kind == "data" and base is not None and "://" not in target:
            with open(os.path.join(base, target), "wb") as f:
                f.write(data)
        try:
            with files.open(target) as fh:
                out[target] = ("data", fh.read())
        except InvalidFileReferenceError as e:
            out[target] = ("error", str(e))
        except Exception as e:      # anything else will resurface when the conversion opens the image
            out[target] = ("error", "unexpected %s" % type(e).__name__)
    return out


_CALLS = [0]


def run_impl(docx_bytes, opts, path=None):
    """opts: dict(style_map, include_default_style_map, include_embedded_style_map, ignore_empty_paragraphs, id_prefix, conv)"""
    def call(fn, **kw):
        try:
            if path is not None:
                with open(path, "rb") as f:
                    return fn(f, **kw)
            return fn(io.BytesIO(docx_bytes), **kw)
        except InvalidFileReferenceError:
            raise
        except Exception as e:
            return e
    conv, _ = doclevel.make_converter(opts.get("conv", "data_uri"))
    kw = {}
    if opts.get("style_map") is not None:
        kw["style_map"] = opts["style_map"]
    # an option left out means its documented default: every other call leaves out the options that have their default value
    _CALLS[0] += 1
    for k in ("include_default_style_map", "include_embedded_style_map", "ignore_empty_paragraphs", "id_prefix"):
        if k in opts and opts[k] is not None:
            if _CALLS[0] % 2 == 1 and k != "id_prefix" and opts[k] is True:
                continue
            kw[k] = opts[k]
    if conv is not None:
        kw["convert_image"] = conv
    html = call(mammoth.convert_to_html, **kw)
    raw = call(mammoth.extract_raw_text)
    return html, raw


def opts_term(opts):
    _, conv_term = doclevel.make_converter(opts.get("conv", "data_uri"))
    return "(mkApi %s %s %s %s %s %s)" % (
        T.opt(T.s, opts.get("style_map")), T.b(opts.get("include_default_style_map", True)),
        T.b(opts.get("include_embedded_style_map", True)), T.b(opts.get("ignore_empty_paragraphs", True)),
        T.opt(T.s, opts.get("id_prefix")), conv_term)


def obs_term(res):
    if isinstance(res, Exception):
        return "None"
    return "(Some (%s, %s))" % (T.s(res.value), T.lst(lambda m: T.s(m.message), res.messages))


def case_term(model_parts, named, linked, opts, html, raw):
    lk = T.lst(lambda kv: "(%s, %s)" % (T.s(kv[0]), "(ImgData %s)" % T.lst(T.n, list(kv[1][1])) if kv[1][0] == "data"
                                       else "(ImgError %s)" % T.s(kv[1][1])), sorted(linked.items()))
    return "(%s, %s, %s, %s, %s, %s)" % (B.parts_term(model_parts), T.b(named), lk, opts_term(opts), obs_term(html), obs_term(raw))


MD_CASE_TYPE = "list (str * dpart) * api_opts * option (str * list str)"


def run_markdown(docx_bytes, opts):
    conv, _ = doclevel.make_converter(opts.get("conv", "data_uri"))
    kw = {}
    if opts.get("style_map") is not None:
        kw["style_map"] = opts["style_map"]
    for k in ("include_default_style_map", "include_embedded_style_map", "ignore_empty_paragraphs", "id_prefix"):
        if k in opts and opts[k] is not None:
            kw[k] = opts[k]
    if conv is not None:
        kw["convert_image"] = conv
    try:
        return mammoth.convert_to_markdown(io.BytesIO(docx_bytes), **kw)
    except InvalidFileReferenceError:
        raise
    except Exception as e:
        return e


def md_case_term(model_parts, opts, md):
    return "(%s, %s, %s)" % (B.parts_term(model_parts), opts_term(opts), obs_term(md))
