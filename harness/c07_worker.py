"""Child process of the C07 check: runs the implementation on style-map lines / texts so that a hang (exponential
backtracking) can be killed by the parent.  usage: python -m harness.c07_worker <infile.json> <outfile.jsonl>"""
import json
import sys

from .props import c07


def main():
    with open(sys.argv[1], encoding="utf-8") as f:
        job = json.load(f)
    with open(sys.argv[2], "w", encoding="utf-8") as out:
        def emit(o):
            out.write(json.dumps(o) + "\n")
            out.flush()
        for i, l in enumerate(job["lines"]):
            emit({"start": ["line", i]})
            term, toks, res = c07.observe_line(l)
            o = {"kind": "line", "i": i, "term": term, "types": [t.type for t in toks] if toks else []}
            if isinstance(res, Exception):
                o["exc"] = type(res).__name__
            else:
                o["parsed"] = res.value is not None
            emit(o)
        for i, t in enumerate(job["texts"]):
            emit({"start": ["text", i]})
            term, res = c07.observe_map(t)
            o = {"kind": "text", "i": i, "term": term, "bad": c07.oracle_map(t, res)}
            if not isinstance(res, Exception):
                o["msgs"] = [m.message for m in res[1]][:3]
            emit(o)
        emit({"done": True})


main()
