"""Shared machinery of the checks: build, in-kernel evaluation, decision, evidence."""
import concurrent.futures
import fcntl
import hashlib
import json
import os
import random
import re
import shutil
import subprocess
import sys
import time

VERIF = os.path.dirname(os.path.dirname(os.path.abspath(__file__)))
REPO = os.environ.get("MAMMOTH_REPO", "/repo")
COQ = os.path.join(VERIF, "coq")
PY = "/venv/bin/python"
ENV = dict(os.environ, PYTHONPATH=REPO, PYTHONHASHSEED=os.environ.get("PYTHONHASHSEED", "0"),
           MAMMOTH_VERIF="1")
if REPO not in sys.path:
    sys.path.insert(0, REPO)

FORBIDDEN = re.compile(
    r"\b(Admitted|admit|Axiom|Axioms|Parameter|Parameters|Conjecture|Conjectures|Hypothesis|Hypotheses|Variable|Variables"
    r"|Admit Obligations|bypass_check)\b|Unset\s+Guard|Unset\s+Positivity|Unset\s+Universe|type-in-type|impredicative-set|native_compute")
ALLOWED_IN_SECTION = re.compile(r"\b(Hypothesis|Hypotheses|Variable|Variables|Context)\b")
THM = re.compile(r"^\s*(?:Local\s+|Global\s+|#\[[^\]]*\]\s*)*(Theorem|Lemma|Example|Corollary|Fact|Remark|Proposition)\s+([A-Za-z_][A-Za-z0-9_']*)", re.M)

TRUSTED_BASE = [
    "Coq 8.16.1 kernel and its vm_compute reduction machine (no native_compute)",
    "tools/gen_tables.py: translator that prints /repo's data tables as Coq definitions",
    "harness/: generators, Python->Coq term printers, canonicalisers and implementation runners of the correspondence check",
    "CPython 3.12 and the stdlib modules mammoth calls (re, xml.dom.minidom/expat, zipfile, base64, xml.sax.saxutils) are modelled, not verified",
]


class Violation:
    def __init__(self, kind, what, data, found_input):
        self.kind = kind            # 'oracle' | 'correspondence' | 'proof' | 'translator'
        self.what = what            # one line
        self.data = data            # json-able replay content
        self.found_input = found_input


def sh(cmd, timeout=3600, cwd=None, env=None, input=None):
    p = subprocess.run(cmd, shell=isinstance(cmd, str), cwd=cwd, env=env or ENV, input=input,
                       stdout=subprocess.PIPE, stderr=subprocess.STDOUT, timeout=timeout, text=True)
    out = "\n".join(l for l in p.stdout.splitlines() if "auto_activate_base" not in l)
    return p.returncode, out


class Ctx:
    def __init__(self, prop, tier, seed):
        self.prop = prop
        self.tier = tier
        self.seed = seed
        self.rng = random.Random((seed << 8) ^ int(hashlib.sha1(prop.encode()).hexdigest()[:6], 16))
        self.t0 = time.time()
        self.violations = []
        self.known_hits = []
        self.coverage = {"evaluations": 0, "distinct_nontrivial": 0, "rule": "", "samples": [],
                         "obligations": 0, "discharged": 0, "checker_cmd": "", "trusted_base": list(TRUSTED_BASE),
                         "evaluations_in_kernel": 0, "traces_validated_against_impl": 0}
        self.assumptions = []
        self.notes = []
        self._nontrivial = set()
        self._lock = None
        self.case_dir = os.path.join(COQ, "Cases", prop)
        self.thorough = tier == "thorough"

    def clean_replays(self):
        """a run of the check (not a replay) starts by removing the replay files of its tier"""
        rdir = os.path.join(VERIF, "replays", self.prop)
        if os.path.isdir(rdir):
            for fn in os.listdir(rdir):
                if fn.startswith(self.tier + "_"):
                    os.remove(os.path.join(rdir, fn))

    # ------------------------------------------------------------ logging
    def log(self, *a):
        print("[%s %6.1fs]" % (self.prop, time.time() - self.t0), *a, flush=True)

    # ------------------------------------------------------------ build
    def lock(self):
        if self._lock is None:
            self._lock = open(os.path.join(VERIF, ".lock"), "w")
            fcntl.flock(self._lock, fcntl.LOCK_EX)

    def unlock(self):
        if self._lock is not None:
            fcntl.flock(self._lock, fcntl.LOCK_UN)
            self._lock.close()
            self._lock = None

    def regen(self):
        # hand-written sources with «string» literals -> .v
        ins = []
        for d in ("Model", "Proofs", "Props"):
            dd = os.path.join(COQ, d)
            ins += [os.path.join(dd, f) for f in sorted(os.listdir(dd)) if f.endswith(".v.in")]
        if ins:
            sh(["python3", os.path.join(VERIF, "tools", "strlit.py")] + ins, timeout=120)
        rc, out = sh([PY, os.path.join(VERIF, "tools", "gen_tables.py")], timeout=600)
        self.log(out.strip().splitlines()[-1] if out.strip() else "gen_tables: no output")
        if rc != 0:
            self.violations.append(Violation(
                "translator", "translator failed on the current source (fail-closed)",
                {"obligation": "tools/gen_tables.py", "output": out[-4000:]}, False))
            return False
        return True

    def cone(self, vfile):
        """.v files (relative to coq/) that vfile transitively depends on, inside the project."""
        seen, todo = [], [vfile]
        while todo:
            f = todo.pop()
            if f in seen or not os.path.exists(os.path.join(COQ, f)):
                continue
            seen.append(f)
            with open(os.path.join(COQ, f), encoding="utf-8") as fh:
                txt = fh.read()
            for m in re.finditer(r"From\s+Mammoth\s+Require\s+(?:Import|Export)\s+([^.]*)\.", txt):
                for name in m.group(1).split():
                    for d in ("Gen", "Model", "Proofs", "Props"):
                        cand = os.path.join(d, name + ".v")
                        if os.path.exists(os.path.join(COQ, cand)):
                            todo.append(cand)
        return sorted(seen)

    def build(self, prop_file=None):
        """Regenerate tables, build Props/<prop>.vo with a full .vo make, re-run the property file to
        capture Print Assumptions.  Records obligations.  Returns True when every obligation checked."""
        prop_file = prop_file or ("Props/%s.v" % self.prop)
        self.lock()
        try:
            if not self.regen():
                return False
            cone = self.cone(prop_file)
            # gate: nothing in the cone may declare an axiom or switch off a check
            for f in cone:
                with open(os.path.join(COQ, f), encoding="utf-8") as fh:
                    txt = re.sub(r"\(\*.*?\*\)", "", fh.read(), flags=re.S)
                for m in FORBIDDEN.finditer(txt):
                    w = m.group(0)
                    if ALLOWED_IN_SECTION.fullmatch(w) and self._inside_section(txt, m.start()):
                        continue
                    self.violations.append(Violation(
                        "proof", "forbidden vernacular %r in %s" % (w, f),
                        {"obligation": f, "error": "forbidden vernacular %r" % w}, False))
                    return False
            obligations = []
            for f in cone:
                if f.startswith(("Proofs/", "Props/")):
                    with open(os.path.join(COQ, f), encoding="utf-8") as fh:
                        txt = re.sub(r"\(\*.*?\*\)", "", fh.read(), flags=re.S)
                    obligations += ["%s:%s" % (f, m.group(2)) for m in THM.finditer(txt)]
            self.coverage["obligations"] = len(obligations)
            self.coverage["obligation_names_in_property_file"] = [o for o in obligations if o.startswith("Props/")]
            target = prop_file[:-2] + ".vo"
            t = time.time()
            rc, out = sh(["./mk", target], cwd=COQ, timeout=3000)
            self.coverage["checker_cmd"] = "cd /verif/coq && ./mk %s   # coq_makefile + make (full .vo), coqc 8.16.1" % target
            if rc != 0:
                err = out[-3000:]
                m = re.search(r'File "\./([^"]+)", line (\d+)', out)
                failing = m.group(1) if m else prop_file
                bad = [o for o in obligations if o.startswith(failing + ":")]
                self.coverage["discharged"] = len(obligations) - max(1, len(bad))
                self.log("BUILD FAILED in", failing)
                self.violations.append(Violation(
                    "proof", "proof obligation no longer checks: %s" % failing,
                    {"obligation": failing, "line": int(m.group(2)) if m else None, "error": err,
                     "theorems_in_file": bad}, False))
                return False
            # Print Assumptions
            rc, out = sh(["coqc", "-Q", ".", "Mammoth", "-w", "-notation-overridden", prop_file], cwd=COQ, timeout=1200)
            if rc != 0:
                self.violations.append(Violation(
                    "proof", "property file no longer checks: %s" % prop_file,
                    {"obligation": prop_file, "error": out[-3000:]}, False))
                self.coverage["discharged"] = 0
                return False
            closed = len(re.findall(r"Closed under the global context", out))
            axioms = sorted(set(re.findall(r"^([A-Za-z_][\w.']*)\s*:", out, flags=re.M))) if "Axioms:" in out else []
            self.coverage["print_assumptions"] = {"closed_theorems": closed, "axioms": axioms}
            self.coverage["discharged"] = len(obligations)
            self.coverage["build_s"] = round(time.time() - t, 1)
            if self.thorough:
                # independent re-check of the compiled property file and everything it depends on
                lib = "Mammoth.Props." + os.path.basename(prop_file)[:-2]
                rc, out = sh(["coqchk", "-silent", "-o", "-Q", ".", "Mammoth", lib], cwd=COQ, timeout=2400)
                tail = out[out.find("CONTEXT SUMMARY"):] if "CONTEXT SUMMARY" in out else out[-1500:]
                self.coverage["coqchk"] = {"exit": rc, "summary": tail[:1500]}
                if rc != 0:
                    self.violations.append(Violation("proof", "coqchk rejects %s" % lib, {"obligation": lib, "error": out[-3000:]}, False))
                    return False
            self.log("built %s: %d obligations in %d files, %d closed under the global context, axioms=%s" %
                     (target, len(obligations), len(cone), closed, axioms))
            return True
        finally:
            self.unlock()

    @staticmethod
    def _inside_section(txt, pos):
        before = txt[:pos]
        names = re.findall(r"^\s*Section\s+(\w+)", before, flags=re.M)
        depth = 0
        for n in names:
            depth += 1
            if re.search(r"^\s*End\s+%s\s*\." % re.escape(n), before, flags=re.M):
                depth -= 1
        return depth > 0

    # ------------------------------------------------------------ in-kernel evaluation
    def coq_eval(self, name, header, cases, case_type, check_fn, shard=200, timeout=1500, more=()):
        """Evaluate `check_fn : case_type -> bool` on every case inside Coq (vm_compute).
        cases: list of Coq terms (strings).  Returns the list of indices whose check is false.
        more: further check functions evaluated on the same cases in the same files; their false-indices
        are left in self.more_bad[fn].
        Raises RuntimeError when coqc itself fails (model or printer broken)."""
        self.more_bad = {fn: [] for fn in more}
        if not cases:
            return []
        if os.path.isdir(self.case_dir) and not getattr(self, "_cleaned", False):
            shutil.rmtree(self.case_dir, ignore_errors=True)
        self._cleaned = True
        os.makedirs(self.case_dir, exist_ok=True)
        # share frequent string literals (XML names, namespace URIs, ...) through definitions: the cost of
        # a cases file is literal elaboration, not evaluation
        lit = re.compile(r"\[\d+(?:;\d+)+\]")
        counts = {}
        for c in cases:
            for m in lit.findall(c):
                if len(m) > 14:
                    counts[m] = counts.get(m, 0) + 1
        names = {}
        for m, k in counts.items():
            if k >= 3:
                names[m] = "k%d_" % len(names)
        if names:
            header = header + "\n" + "\n".join("Definition %s : list N := %s." % (v, k) for k, v in names.items()) + "\n"
            cases = [lit.sub(lambda m: names.get(m.group(0), m.group(0)), c) for c in cases]
        files = []
        for k in range(0, len(cases), shard):
            chunk = cases[k:k + shard]
            fn = os.path.join(self.case_dir, "%s_%d.v" % (name, k // shard))
            with open(fn, "w", encoding="utf-8") as f:
                f.write(header + "\n")
                f.write("Definition the_cases : list (%s) :=\n [ %s ].\n" % (case_type, "\n ; ".join(chunk)))
                f.write("Fixpoint bad_idx (i : N) (l : list (%s)) : list N :=\n"
                        "  match l with [] => [] | c :: l' => if (%s) c then bad_idx (N.succ i) l' else i :: bad_idx (N.succ i) l' end.\n"
                        % (case_type, check_fn))
                f.write("Definition result := bad_idx 0%N the_cases.\n")
                f.write("Eval vm_compute in (9999999%N :: result).\n")
                for j, fn2 in enumerate(more):
                    f.write("Fixpoint bad_idx%d (i : N) (l : list (%s)) : list N :=\n"
                            "  match l with [] => [] | c :: l' => if (%s) c then bad_idx%d (N.succ i) l' else i :: bad_idx%d (N.succ i) l' end.\n"
                            % (j, case_type, fn2, j, j))
                    f.write("Eval vm_compute in (%d%%N :: bad_idx%d 0%%N the_cases).\n" % (9999990 - j, j))
            files.append((k, fn))

        def run(item):
            k, fn = item
            # large literals (a 100 kB image) overflow coqc's default stack
            rc, out = sh("ulimit -s unlimited 2>/dev/null || ulimit -s 1000000 2>/dev/null; exec coqc -Q %s Mammoth -w -notation-overridden %s" % (COQ, fn),
                         timeout=timeout)
            return k, fn, rc, out

        bad = []
        t_eval = time.time()
        with concurrent.futures.ThreadPoolExecutor(max_workers=int(os.environ.get("VERIF_JOBS", "16"))) as ex:
            for k, fn, rc, out in ex.map(run, files):
                if rc != 0:
                    raise RuntimeError("coqc failed on %s:\n%s" % (fn, out[-3000:]))
                ms = re.findall(r"=\s*\[(.*?)\]\s*:\s*list N", out, flags=re.S)
                if len(ms) != 1 + len(more):
                    raise RuntimeError("cannot read coqc output for %s:\n%s" % (fn, out[-2000:]))
                nums = [int(x) for x in re.findall(r"\d+", ms[0])]
                if not nums or nums[0] != 9999999:
                    raise RuntimeError("sentinel missing in coqc output for %s" % fn)
                bad += [k + i for i in nums[1:]]
                for j, fn2 in enumerate(more):
                    nums = [int(x) for x in re.findall(r"\d+", ms[1 + j])]
                    if not nums or nums[0] != 9999990 - j:
                        raise RuntimeError("sentinel missing in coqc output for %s (%s)" % (fn, fn2))
                    self.more_bad[fn2] += [k + i for i in nums[1:]]
        self.coverage["evaluations_in_kernel"] += len(cases)
        self.log("in-kernel evaluation %s: %d cases in %d files, %.1fs, %d disagreements" %
                 (name, len(cases), len(files), time.time() - t_eval, len(bad)))
        return sorted(bad)

    # ------------------------------------------------------------ bookkeeping
    def count(self, n=1):
        self.coverage["evaluations"] += n

    def nontrivial(self, key):
        self._nontrivial.add(key if isinstance(key, (str, int, tuple)) else repr(key))

    def sample(self, s):
        if len(self.coverage["samples"]) < 6:
            self.coverage["samples"].append(s)

    def violation(self, kind, what, data, found_input):
        self.violations.append(Violation(kind, what, data, found_input))

    # ------------------------------------------------------------ finish
    def finish(self):
        cov = self.coverage
        cov["distinct_nontrivial"] = len(self._nontrivial)
        known = load_known(self.prop)
        real = []
        for v in self.violations:
            hit = None
            if v.found_input:
                for k in known:
                    if k["match"] in json.dumps(v.data, sort_keys=True, ensure_ascii=True) or k["match"] in v.what:
                        hit = k
                        break
            if hit:
                if hit["id"] not in [h["id"] for h in self.known_hits]:
                    self.known_hits.append(hit)
            else:
                real.append(v)
        # an alarm of the machinery (proof / correspondence / translator) with no failing input is
        # superseded when the search did find failing inputs: report those instead
        found = [v for v in real if v.found_input]
        unfound = [v for v in real if not v.found_input]
        lines = []
        rdir = os.path.join(VERIF, "replays", self.prop)
        os.makedirs(rdir, exist_ok=True)
        for h in self.known_hits:
            lines.append("KNOWN-FINDING: property=%s %s" % (self.prop, h["what"]))
        report = found if found else unfound
        if found and unfound:
            for v in found:
                v.data["machinery_alarms"] = [u.what for u in unfound]
        for i, v in enumerate(report[:5]):
            path = os.path.join(rdir, "%s_%s_%d_%d.json" % (self.tier, v.kind, self.seed, i))
            with open(path, "w", encoding="utf-8") as f:
                json.dump({"property": self.prop, "kind": v.kind, "what": v.what, "seed": self.seed,
                           "tier": self.tier, "failing_input_found": v.found_input, "replay": v.data},
                          f, indent=1, ensure_ascii=True, default=repr)
            lines.append("VIOLATION property=%s replay=%s%s" %
                         (self.prop, path, "" if v.found_input else " no-failing-input-found"))
        ev = {
            "property_id": self.prop, "tier": self.tier, "seed": self.seed, "level": self.level,
            "coverage": cov, "assumptions": self.assumptions, "wall_s": round(time.time() - self.t0, 2),
            "violations": len(report),
        }
        if self.notes:
            cov["notes"] = self.notes
        cov["known_findings_hit"] = [h["id"] for h in self.known_hits]
        os.makedirs(os.path.join(VERIF, "evidence"), exist_ok=True)
        with open(os.path.join(VERIF, "evidence", "%s.json" % self.prop), "w", encoding="utf-8") as f:
            json.dump(ev, f, indent=1, ensure_ascii=True, default=repr)
        for l in lines:
            print(l, flush=True)
        self.log("done: evaluations=%d (in-kernel %d) nontrivial=%d obligations=%d/%d violations=%d wall=%.1fs" % (
            cov["evaluations"], cov["evaluations_in_kernel"], cov["distinct_nontrivial"],
            cov["discharged"], cov["obligations"], len(report), time.time() - self.t0))
        return 1 if report else 0

    level = "proof"


def load_known(prop):
    path = os.path.join(VERIF, "known_findings.json")
    if not os.path.exists(path):
        return []
    with open(path, encoding="utf-8") as f:
        return [k for k in json.load(f) if k["property"] == prop]
