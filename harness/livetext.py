"""Independent statement of C01's 'live text in reading order', computed on the abstract package (XML trees).
Written from the property text, not from the implementation:
  - body paragraphs and table cells in order; the text of w:t, tabs, the two hyphens, mapped symbols, field RESULTS;
  - left out: tracked deletions (w:del), field instructions (w:instrText), non-fallback alternate content, elements the
    converter ignores or does not know;
  - a paragraph whose mark is deleted merges into the next paragraph read;
  - text-box contents after their host paragraph;
  - note markers [k] in place (k counts references in the order they are emitted), the notes after the body in reference
    order, each followed by ' ↑'; comment references [initials k] and 'Comment [..]' entries only when a mapping enables them;
  - content matched by a `!` mapping disappears.
"""
from mammoth.docx.xmlparser import XmlElement, XmlText
from mammoth.docx.dingbats import dingbats

CONTAINERS = {"w:ins", "w:object", "w:smartTag", "w:drawing", "v:group", "v:rect", "v:roundrect", "v:shape", "v:textbox",
              "w:txbxContent", "w:hyperlink"}


class Para:
    def __init__(self, style_id):
        self.style_id = style_id
        self.items = []       # ("t", text) | ("note", type, id) | ("comment", id)
        self.run_styles = []


class LiveText:
    def __init__(self, pkg, ignored_para_styles=(), ignored_run_styles=(), comments_on=False):
        self.pkg = pkg
        self.ip, self.ir = set(ignored_para_styles), set(ignored_run_styles)
        self.comments_on = comments_on
        self.deleted = []

    # ---- flatten a list of block-level nodes into a list of paragraphs (Para) in reading order
    def blocks(self, nodes):
        out = []
        for n in nodes:
            if not isinstance(n, XmlElement):
                continue
            if n.name == "w:p":
                props = n.find_child_or_null("w:pPr")
                if props.find_child_or_null("w:rPr").find_child("w:del") is not None:
                    self.deleted += list(n.children)
                    continue
                kids = self.deleted + list(n.children)
                self.deleted = []
                p = Para(props.find_child_or_null("w:pStyle").attributes.get("w:val"))
                extra = []
                self.inline(kids, p, extra, None)
                out.append(p)
                out += extra
            elif n.name == "w:tbl":
                for tr in n.children:
                    if isinstance(tr, XmlElement) and tr.name == "w:tr":
                        for tc in tr.children:
                            if isinstance(tc, XmlElement) and tc.name == "w:tc":
                                vm = tc.find_child_or_null("w:tcPr").find_child("w:vMerge")
                                if vm is not None and vm.attributes.get("w:val") in (None, "", "continue"):
                                    continue      # a vertical-merge continuation: part of the cell above, yields nothing
                                out += self.blocks(tc.children)
                    elif isinstance(tr, XmlElement):
                        out += self.blocks([tr])
            elif n.name == "w:sdt":
                if n.find_child_or_null("w:sdtPr").find_child("wordml:checkbox") is None:
                    out += self.blocks(n.find_child_or_null("w:sdtContent").children)
            elif n.name == "mc:AlternateContent":
                out += self.blocks(n.find_child_or_null("mc:Fallback").children)
            elif n.name in CONTAINERS or n.name in ("w:tr", "w:tc"):
                out += self.blocks(n.children)
            elif n.name == "w:pict":
                out += self.blocks(n.children)
            elif n.name == "w:r":
                # a run outside any paragraph (e.g. directly in a note): its own text, as an anonymous paragraph-less item
                p = Para(None)
                p.anonymous = True
                extra = []
                self.inline([n], p, extra, None)
                out.append(p)
                out += extra
        return out

    def inline(self, nodes, p, extra, run_style):
        for n in nodes:
            if not isinstance(n, XmlElement):
                continue
            nm = n.name
            if nm == "w:r":
                rs = n.find_child_or_null("w:rPr").find_child_or_null("w:rStyle").attributes.get("w:val")
                if rs in self.ir:
                    # the run is dropped with its contents, but text boxes inside it were already set aside by the reader
                    dummy = Para(None)
                    self.inline(n.children, dummy, extra, rs)
                    continue
                self.inline(n.children, p, extra, rs)
            elif nm == "w:t":
                p.items.append(("t", "".join(c.value for c in n.children if isinstance(c, XmlText)) + "".join(
                    self._inner(c) for c in n.children if isinstance(c, XmlElement))))
            elif nm == "w:tab":
                p.items.append(("t", "\t"))
            elif nm == "w:noBreakHyphen":
                p.items.append(("t", "‑"))
            elif nm == "w:softHyphen":
                p.items.append(("t", "­"))
            elif nm == "w:sym":
                font, char = n.attributes.get("w:font"), n.attributes.get("w:char")
                cp = dingbats.get((font, int(char, 16)))
                if cp is None and len(char) >= 4 and char.startswith("F0"):
                    cp = dingbats.get((font, int(char[2:], 16)))
                if cp is not None:
                    p.items.append(("t", chr(cp)))
            elif nm in ("w:footnoteReference", "w:endnoteReference"):
                p.items.append(("note", nm[2:-9], n.attributes["w:id"]))
            elif nm == "w:commentReference":
                p.items.append(("comment", n.attributes["w:id"]))
            elif nm == "w:pict":
                # text-box content goes after the host paragraph
                extra += self.blocks(n.children)
            elif nm == "mc:AlternateContent":
                self.inline(n.find_child_or_null("mc:Fallback").children, p, extra, run_style)
            elif nm == "w:sdt":
                if n.find_child_or_null("w:sdtPr").find_child("wordml:checkbox") is None:
                    self.inline(n.find_child_or_null("w:sdtContent").children, p, extra, run_style)
            elif nm == "w:p" or nm == "w:tbl":
                # block content met inline (inside a text box): it stands for itself, inside the current flow
                sub = self.blocks([n])
                p.items.append(("blocks", sub))
            elif nm in CONTAINERS:
                self.inline(n.children, p, extra, run_style)
            # everything else (w:instrText, w:del, w:rPr, w:fldChar, drawings without text, unknown elements): no text

    def _inner(self, n):
        return "".join(c.value if isinstance(c, XmlText) else self._inner(c) for c in n.children)

    # ---- render
    def render(self, paras, state, raw=False):
        out = []
        for p in paras:
            dropped = p.style_id in self.ip and not getattr(p, "anonymous", False)
            buf = []
            for it in p.items:
                if it[0] == "t":
                    buf.append(it[1])
                elif it[0] == "blocks":
                    buf.append(self.render(it[1], state if not dropped else dict(state, muted=True), raw))
                elif raw:
                    continue
                elif dropped or state.get("muted"):
                    continue
                elif it[0] == "note":
                    state["refs"].append((it[1], it[2]))
                    buf.append("[%d]" % len(state["refs"]))
                elif it[0] == "comment" and self.comments_on:
                    state["crefs"].append(it[1])
                    ini = self.comment_initials(it[1])
                    buf.append("[%s%d]" % (ini, len(state["crefs"])))
            if raw:
                out.append("".join(buf) + ("" if getattr(p, "anonymous", False) else "\n\n"))
            elif not dropped:
                out.append("".join(buf))
        return "".join(out)

    def comment_initials(self, cid):
        for c in self.pkg.comments or []:
            if c.attributes.get("w:id") == cid:
                return (c.attributes.get("w:initials") or "").strip()
        return ""

    def html_text(self):
        state = {"refs": [], "crefs": []}
        self.deleted = []
        out = self.render(self.blocks(self.pkg.body), state)
        notes = {}
        for ty, part in (("footnote", self.pkg.footnotes), ("endnote", self.pkg.endnotes)):
            self.deleted = []
            for n in part or []:
                if n.attributes.get("w:type") in ("separator", "continuationSeparator"):
                    continue
                notes[(ty, n.attributes["w:id"])] = self.blocks(n.children)
        body_refs = list(state["refs"])
        for key in body_refs:
            out += self.render(notes[key], state) + " ↑"
        comments = {}
        self.deleted = []
        for c in self.pkg.comments or []:
            comments[c.attributes["w:id"]] = self.blocks(c.children)
        i = 0
        while i < len(state["crefs"]):
            cid = state["crefs"][i]
            out += "Comment [%s%d]" % (self.comment_initials(cid), i + 1) + self.render(comments[cid], state) + " ↑"
            i += 1
        return out

    def raw_text(self):
        plain = LiveText(self.pkg)          # style maps do not apply to extract_raw_text
        return plain.render(plain.blocks(self.pkg.body), {"refs": [], "crefs": []}, raw=True)
